//! Harness driving the real crate (built from /repo's working tree with
//! `--cfg divan_verif`): the sampling loop `bench_loop_threaded` under the
//! per-thread virtual timestamp counter (group `loop`: C03, C04, C19).
//!
//! One case per line, `key=value` tokens:
//!   mode=b|t  n=<u32|->  s=<u32|->  T=<threads>  min=<secs:nanos|->  max=<secs:nanos|->  skip=<0|1|->
//!   f=<tsc frequency>  p=<precision picos>  oh=<loop,alloc,dealloc,realloc picos>  ic=<4 bits: per-input counter of kind bytes,chars,cycles,items; `1` = items only>
//!   g=<gen cost> c=<call cost> d=<drop cost>  (ticks per iteration)
//!   ja=<jitter amplitude> js=<jitter seed>  grow=<extra call cost per round index>  skew=<extra call cost per thread index>
//!   off=<o0,o1,..>  initial counter value per thread
//!   x=<r:t:e,...>   extra ticks added to the first call of round r (0-based) on thread t (`*` = every thread)
//!   al=<allocations per call>  alm=<only where (round + thread) % alm == 0; 0 = everywhere>
//!   ly=<5 digits: option layer (0 runner, 1 bench, 2 group, 3 outer group) holding n, s, min, max, skip>
//!   dk=<field/layer/value,...>  other values of a field on layers further out (they must lose)
//!   budget=<max calls of the benchmarked function over the whole case>  maxr=<max rounds>  (watchdog: the closure panics beyond)
//!
//! Output: `ok K=.. sizes=.. calls=.. rag=.. fs=.. dur=.. ai=.. cnt=.. ss=.. si=.. | vt=.. init=.. h=..`
//! (`ai`: per recorded sample with allocation info `index:allocs:alloc_bytes:deallocs:grows:shrinks`)
//! Everything before ` | ` is compared with the model; `h` is the recorded
//! history (per round, per thread `start:end:bytes/chars/cycles/items totals:allocations`) which is fed to it.

use std::cell::RefCell;
use std::sync::atomic::{AtomicU64, Ordering};
use std::sync::Mutex;
use std::time::Duration;

use divan::__verif as v;
use divan::counter::{BytesCount, CharsCount, CyclesCount, ItemsCount};

#[global_allocator]
static ALLOC: divan::AllocProfiler = divan::AllocProfiler::system();

const EV_GEN: u8 = v::ev::USER;
const EV_GEN2: u8 = v::ev::USER + 3;
const EV_CALL: u8 = v::ev::USER + 1;
const EV_DROP: u8 = v::ev::USER + 2;

#[derive(Clone, Default)]
struct Script {
    g: u64,
    c: u64,
    d: u64,
    ja: u64,
    js: u64,
    grow: u64,
    skew: u64,
    off: Vec<u64>,
    extra: Vec<(u64, Option<u32>, u64)>,
    budget: u64,
    max_rounds: u64,
    /// allocations (each freed again) per call ...
    al: u64,
    /// ... on the threads/rounds with `(round + thread) % alm == 0` (`alm = 0`: everywhere)
    alm: u64,
}

static SCRIPT: Mutex<Option<Script>> = Mutex::new(None);
static CASE_ID: AtomicU64 = AtomicU64::new(0);
static CALLS: AtomicU64 = AtomicU64::new(0);

#[derive(Default)]
struct ThreadState {
    case_id: u64,
    script: Script,
    /// 0 = generating, 1 = calling, 2 = dropping
    phase: u8,
    round: u64,
    iter: u64,
}

thread_local! {
    static TS: RefCell<ThreadState> = RefCell::new(ThreadState::default());
}

fn mix(mut z: u64) -> u64 {
    z = z.wrapping_add(0x9E3779B97F4A7C15);
    z = (z ^ (z >> 30)).wrapping_mul(0xBF58476D1CE4E5B9);
    z = (z ^ (z >> 27)).wrapping_mul(0x94D049BB133111EB);
    z ^ (z >> 31)
}

/// Brings the thread's state to the current case (first use: sets the clock
/// offset) and to the given phase; returns (round, iteration, thread, script).
fn enter<R>(phase: u8, f: impl FnOnce(&Script, u64, u64, u32) -> R) -> R {
    let t = v::thread_index();
    TS.with(|ts| {
        let mut ts = ts.borrow_mut();
        let id = CASE_ID.load(Ordering::SeqCst);
        if ts.case_id != id {
            ts.case_id = id;
            ts.script = SCRIPT.lock().unwrap().clone().unwrap_or_default();
            ts.phase = 2;
            ts.round = u64::MAX; // becomes 0 at the first generation
            ts.iter = 0;
            if t != 0 {
                let off = ts.script.off.get(t as usize).copied().unwrap_or(0);
                v::vclock_set(off);
            }
        }
        if ts.phase != phase {
            if phase == 0 {
                ts.round = ts.round.wrapping_add(1);
                if ts.round >= ts.script.max_rounds {
                    panic!("round budget exceeded");
                }
            }
            ts.phase = phase;
            ts.iter = 0;
        }
        let (r, i) = (ts.round, ts.iter);
        ts.iter += 1;
        f(&ts.script, r, i, t)
    })
}

struct Inp {
    /// what this input counts as, per kind (bytes, chars, cycles, items)
    v: [u64; 4],
}

impl Drop for Inp {
    fn drop(&mut self) {
        let cost = enter(2, |s, _, _, _| s.d);
        v::log_event(EV_DROP, 0, 0);
        v::vclock_advance(cost);
    }
}

fn gen_input() -> Inp {
    let (cost, val) = enter(0, |s, r, i, t| {
        let base = mix(s.js ^ (r << 20) ^ ((t as u64) << 50) ^ i);
        // items keeps the historic value; the other kinds get their own
        (s.g, [mix(base ^ 1) % 1000, mix(base ^ 2) % 777, mix(base ^ 3) % 50, base % 1000])
    });
    v::log_event(EV_GEN, val[0], val[1]);
    v::log_event(EV_GEN2, val[2], val[3]);
    v::vclock_advance(cost);
    Inp { v: val }
}

fn call(_x: &mut Inp) {
    let (cost, allocs) = enter(1, |s, r, i, t| {
        let mut c = s.c + s.grow * r + s.skew * t as u64;
        if s.ja > 0 {
            c += mix(s.js.wrapping_mul(31) ^ (r << 24) ^ ((t as u64) << 52) ^ i) % (s.ja + 1);
        }
        if i == 0 {
            for &(er, et, e) in &s.extra {
                if er == r && et.map_or(true, |et| et == t) {
                    c += e;
                }
            }
        }
        if CALLS.fetch_add(1, Ordering::SeqCst) >= s.budget {
            panic!("call budget exceeded");
        }
        let allocs = if s.al > 0 && (s.alm == 0 || (r + t as u64) % s.alm == 0) { s.al } else { 0 };
        (c, allocs)
    });
    v::log_event(EV_CALL, allocs, 0);
    for _ in 0..allocs {
        drop(std::hint::black_box(Box::new(0u64)));
    }
    v::vclock_advance(cost);
}

fn opt_u32(s: &str) -> Option<u32> {
    if s == "-" {
        None
    } else {
        Some(s.parse().expect("u32"))
    }
}

fn opt_dur(s: &str) -> Option<Duration> {
    if s == "-" {
        None
    } else {
        let (a, b) = s.split_once(':').expect("secs:nanos");
        Some(Duration::new(a.parse().expect("secs"), b.parse().expect("nanos")))
    }
}

fn list_u64(s: &str) -> Vec<u64> {
    if s.is_empty() {
        vec![]
    } else {
        s.split(',').map(|x| x.parse().expect("u64")).collect()
    }
}

fn join<T: ToString>(l: impl IntoIterator<Item = T>) -> String {
    l.into_iter().map(|x| x.to_string()).collect::<Vec<_>>().join(",")
}

fn run_case(line: &str) -> String {
    let mut is_test = false;
    // The resolved values; they are distributed over option layers below.
    let mut options = divan::__private::BenchOptions::default();
    let mut layer_of = [0usize; 5]; // n, s, min, max, skip
    let mut decoys: Vec<(String, usize, String)> = Vec::new();
    let mut threads = 1usize;
    let mut freq = 1_000_000_000_000u64;
    let mut prec = 1u128;
    let mut oh = [0u128; 4];
    let mut ic = [false; 4];
    let mut sc = Script { budget: 60_000, max_rounds: 1_200, ..Script::default() };
    for tok in hxlib::toks(line) {
        let Some((k, val)) = tok.split_once('=') else { panic!("bad token {tok}") };
        match k {
            "mode" => is_test = val == "t",
            "n" => options.sample_count = opt_u32(val),
            "s" => options.sample_size = opt_u32(val),
            "T" => threads = val.parse().expect("T"),
            "min" => options.min_time = opt_dur(val),
            "max" => options.max_time = opt_dur(val),
            "skip" => options.skip_ext_time = if val == "-" { None } else { Some(val == "1") },
            "ly" => {
                for (i, ch) in val.chars().take(5).enumerate() {
                    layer_of[i] = ch.to_digit(10).expect("layer") as usize % 4;
                }
            }
            "dk" => {
                for e in val.split(',').filter(|e| !e.is_empty()) {
                    let p: Vec<&str> = e.splitn(3, '/').collect();
                    decoys.push((p[0].to_string(), p[1].parse::<usize>().expect("decoy layer") % 4, p[2].to_string()));
                }
            }
            "f" => freq = val.parse().expect("f"),
            "p" => prec = val.parse().expect("p"),
            "oh" => {
                let l: Vec<u128> = val.split(',').map(|x| x.parse().expect("oh")).collect();
                oh = [l[0], l[1], l[2], l[3]];
            }
            "ic" => {
                ic = match val {
                    "0" => [false; 4],
                    "1" => [false, false, false, true],
                    _ => {
                        let b: Vec<bool> = val.chars().map(|c| c == '1').collect();
                        [b[0], b[1], b[2], b[3]]
                    }
                }
            }
            "g" => sc.g = val.parse().expect("g"),
            "c" => sc.c = val.parse().expect("c"),
            "d" => sc.d = val.parse().expect("d"),
            "ja" => sc.ja = val.parse().expect("ja"),
            "js" => sc.js = val.parse().expect("js"),
            "grow" => sc.grow = val.parse().expect("grow"),
            "skew" => sc.skew = val.parse().expect("skew"),
            "off" => sc.off = list_u64(val),
            "x" => {
                for e in val.split(',').filter(|e| !e.is_empty()) {
                    let p: Vec<&str> = e.split(':').collect();
                    let t = if p[1] == "*" { None } else { Some(p[1].parse().expect("xt")) };
                    sc.extra.push((p[0].parse().expect("xr"), t, p[2].parse().expect("xe")));
                }
            }
            "budget" => sc.budget = val.parse().expect("budget"),
            "maxr" => sc.max_rounds = val.parse().expect("maxr"),
            "al" => sc.al = val.parse().expect("al"),
            "alm" => sc.alm = val.parse().expect("alm"),
            _ => panic!("unknown key {k}"),
        }
    }

    // The effective options are built the way `run_tree` / `run_bench_entry` build
    // them: four layers (0 = the runner's options, 1 = the benchmark's, 2 = its
    // group's, 3 = the outer group's), each field of the case placed on the layer
    // `ly` names (decoys: other values of the same field on layers further out,
    // which must lose), merged through the real `BenchOptions::overwrite`,
    // innermost group first, the runner last.
    let resolved = options;
    let mut layers: Vec<divan::__private::BenchOptions> = (0..4).map(|_| Default::default()).collect();
    layers[layer_of[0]].sample_count = resolved.sample_count;
    layers[layer_of[1]].sample_size = resolved.sample_size;
    layers[layer_of[2]].min_time = resolved.min_time;
    layers[layer_of[3]].max_time = resolved.max_time;
    layers[layer_of[4]].skip_ext_time = resolved.skip_ext_time;
    for (field, l, val) in &decoys {
        let o = &mut layers[*l];
        match field.as_str() {
            "n" if o.sample_count.is_none() => o.sample_count = opt_u32(val),
            "s" if o.sample_size.is_none() => o.sample_size = opt_u32(val),
            "min" if o.min_time.is_none() => o.min_time = opt_dur(val),
            "max" if o.max_time.is_none() => o.max_time = opt_dur(val),
            "skip" if o.skip_ext_time.is_none() => o.skip_ext_time = Some(val == "1"),
            _ => {}
        }
    }
    let groups = v::options_overwrite(&layers[2], &layers[3]);
    let entry = v::options_overwrite(&layers[1], &groups);
    let options = v::options_overwrite(&layers[0], &entry);

    // Arm the environment.
    let off0 = sc.off.first().copied().unwrap_or(0);
    *SCRIPT.lock().unwrap() = Some(sc);
    CASE_ID.fetch_add(1, Ordering::SeqCst);
    CALLS.store(0, Ordering::SeqCst);
    v::set_precision_override(Some(prec));
    v::set_overhead_override(Some(oh));
    v::log_take();
    v::log_reserve(1 << 18);
    v::vclock_set(off0);
    v::vclock_enable(freq, 0);
    v::log_enable(true);
    // the caller's thread state is brought to this case by its first closure call

    let res = std::panic::catch_unwind(std::panic::AssertUnwindSafe(|| {
        v::run_bencher(
            &v::RunConfig { options: &options, threads, is_test, tsc_frequency: Some(freq), compute_stats: true },
            &|bencher| {
                let b = bencher.with_inputs(gen_input);
                let b = if ic[0] { b.input_counter(|x: &Inp| BytesCount::new(x.v[0])) } else { b };
                let b = if ic[1] { b.input_counter(|x: &Inp| CharsCount::new(x.v[1])) } else { b };
                let b = if ic[2] { b.input_counter(|x: &Inp| CyclesCount::new(x.v[2])) } else { b };
                let b = if ic[3] { b.input_counter(|x: &Inp| ItemsCount::new(x.v[3])) } else { b };
                b.bench_refs(call);
            },
        )
    }));

    let vt = v::vclock_now();
    v::log_enable(false);
    v::vclock_disable();
    v::set_precision_override(None);
    v::set_overhead_override(None);
    let log = v::log_take();
    let (dump, panicked) = match res {
        Ok(d) => (d, None),
        Err(e) => (v::RunDump::default(), Some(hxlib::classify_panic(hxlib::panic_msg(&e)))),
    };

    // Read the log back: per thread the alternating START/END readings, the
    // calls between them and the generated counter values.
    #[derive(Default, Clone)]
    struct Round {
        start: u64,
        end: Option<u64>,
        calls: u64,
        ctotal: [u128; 4],
        allocs: u64,
    }
    let mut init: Option<u64> = None;
    let mut per: Vec<Vec<Round>> = vec![Vec::new(); threads];
    let mut pending_ct: Vec<[u128; 4]> = vec![[0; 4]; threads];
    let mut gen_seen: Vec<bool> = vec![false; threads];
    let mut stray_calls: Vec<u64> = vec![0; threads];
    let mut bad = false;
    for e in &log {
        let t = e.thread as usize;
        if t >= threads {
            bad = true;
            continue;
        }
        match e.kind {
            v::ev::CLOCK_START => {
                // Every round generates its inputs before its START reading, so a
                // START of the caller before any generation is `initial_start`.
                if t == 0 && init.is_none() && !gen_seen[0] {
                    init = Some(e.a);
                    continue;
                }
                if per[t].last().map_or(false, |r| r.end.is_none()) {
                    bad = true;
                }
                per[t].push(Round { start: e.a, end: None, calls: 0, ctotal: std::mem::take(&mut pending_ct[t]), allocs: 0 });
            }
            v::ev::CLOCK_END => match per[t].last_mut() {
                Some(r) if r.end.is_none() => r.end = Some(e.a),
                _ => bad = true,
            },
            EV_GEN => {
                gen_seen[t] = true;
                pending_ct[t][0] += e.a as u128;
                pending_ct[t][1] += e.b as u128;
            }
            EV_GEN2 => {
                pending_ct[t][2] += e.a as u128;
                pending_ct[t][3] += e.b as u128;
            }
            EV_CALL => match per[t].last_mut() {
                Some(r) if r.end.is_none() => {
                    r.calls += 1;
                    r.allocs += e.a;
                }
                _ => stray_calls[t] += 1,
            },
            _ => {}
        }
    }
    let k = per[0].len();
    let mut rag = bad || stray_calls.iter().any(|&c| c != 0);
    for t in 0..threads {
        if per[t].len() != k || per[t].iter().any(|r| r.end.is_none()) {
            rag = true;
        }
    }
    let sizes: Vec<u64> = per[0].iter().map(|r| r.calls).collect();
    for t in 1..threads {
        if per[t].iter().map(|r| r.calls).collect::<Vec<_>>() != sizes {
            rag = true;
        }
    }
    let calls: Vec<u64> = (0..threads).map(|t| per[t].iter().map(|r| r.calls).sum::<u64>() + stray_calls[t]).collect();
    let mut h = Vec::new();
    for r in 0..k {
        let mut row = Vec::new();
        for t in 0..threads {
            if let Some(x) = per[t].get(r) {
                row.push(format!(
                    "{}:{}:{}/{}/{}/{}:{}",
                    x.start, x.end.unwrap_or(0), x.ctotal[0], x.ctotal[1], x.ctotal[2], x.ctotal[3], x.allocs
                ));
            }
        }
        h.push(row.join(","));
    }
    if let Some(kind) = panicked {
        // the history up to the panic is still of use to the model
        return format!("panic {} | vt={} init={} h={}", kind, vt, init.map_or("-".to_string(), |i| i.to_string()), h.join(";"));
    }
    let stats = dump.stats.as_ref();
    format!(
        "ok K={} sizes={} calls={} rag={} fs={} dur={} ai={} cnt={} ss={} si={} | vt={} init={} h={}",
        k,
        join(sizes),
        join(calls),
        rag as u8,
        dump.sample_size,
        join(dump.durations.iter()),
        join(dump.alloc_infos.iter().map(|(i, a)| format!(
            "{}:{}:{}:{}:{}:{}",
            i, a.tallies[2].0, a.tallies[2].1, a.tallies[3].0, a.tallies[0].0, a.tallies[1].0
        ))),
        (0..4).map(|k| join(dump.counts[k].iter())).collect::<Vec<_>>().join("/"),
        stats.map_or("-".to_string(), |s| s.sample_count.to_string()),
        stats.map_or("-".to_string(), |s| s.iter_count.to_string()),
        vt,
        init.map_or("-".to_string(), |i| i.to_string()),
        h.join(";"),
    )
}

// ---------------------------------------------------------------------------
// C03 end to end: run the real benchmark binary `hx-loop-e2e` (src/e2e.rs)
// ---------------------------------------------------------------------------

/// tag -> path below the crate
fn e2e_path(tag: &str) -> String {
    let rel = match tag {
        "g_4_2_t12" | "g_3_2_t234" => format!("grp::{tag}"),
        "g_4_2_t13_min0" => format!("gmin0::{tag}"),
        "g_3_2_t12_max0" | "g_3_2_t12_max100" => format!("gmax0::{tag}"),
        "rg_3_2_t12" => format!("renamed::{tag}"),
        "rgi_3_2_t23" => format!("renamed::inner::{tag}"),
        "raw_4_1_t3" => format!("type::{tag}"),
        "z_0_2_t12" => format!("zero::{tag}"),
        "s1_t2" | "s2_plain" | "s3_t3" | "s4_t12" => format!("sib::{tag}"),
        "vtune_grp" => format!("vgrp::{tag}"),
        "vskip_grp" => format!("vsgrp::{tag}"),
        "vgrp_max" => format!("vmgrp::{tag}"),
        "g_3_2_t12_max0f" => format!("gmax0f::{tag}"),
        _ => tag.to_string(),
    };
    format!("hx_loop_e2e::{rel}")
}

/// Case: `bench=<tag> via=<cli|env|attr|attr+cli-n|builder|builder+env-n|builder+env-s> mode=<b|t> n=<n|-> s=<s> threads=<a,b,..>
/// [mx=0] [bn=<builder count overridden by the environment>] [bs=..] [start=<main|api-test|api-bench|args-..>] [arg=<case below the benchmark>] [nomark=1] [with=<siblings run along>]
/// [maxs=<secs>] [mins=<secs>] [tvia=cli|env] [skipx=1] [vcost=<ticks per call on the virtual clock>] [timer=os|tsc] [prec=<precision ps>]
/// [bskip=0|1 border=sf|mf: builder skip_ext_time] [cskip=bare|true|false|env-true|env-false] [vgen=<ticks per generated input>] [eskip=<effective skip, for the model>]
/// [astep=<ticks per timestamp read> calib=1: real overhead calibration]
/// [evlog=1: append the round sizes and the history read from the dumped event log]` (the
/// effective values; `via` says where they are given).  Output: per thread
/// count `t=T samples=.. iters=.. calls=<per thread index>` joined by `;`.
fn run_e2e(line: &str) -> String {
    use std::collections::BTreeMap;
    use std::process::{Command, Stdio};
    let mut d = BTreeMap::new();
    for tok in hxlib::toks(line) {
        if let Some((k, v)) = tok.split_once('=') {
            d.insert(k, v);
        }
    }
    let get = |k: &str| d.get(k).copied().unwrap_or("-");
    let exe = std::env::current_exe().expect("exe").with_file_name("hx-loop-e2e");
    let mut cmd = Command::new(exe);
    for (k, _) in std::env::vars() {
        if k.starts_with("DIVAN_") || k == "NEXTEST" || k.starts_with("HX_") {
            cmd.env_remove(k);
        }
    }
    cmd.env("NO_COLOR", "1");
    // `mode` is the REQUESTED action; `start` says how the run is started (see src/e2e.rs)
    let start = if get("start") == "-" { "main" } else { get("start") };
    cmd.env("HX_START", if start.starts_with("both-") { "main" } else { start });
    let api_only = start == "api-test" || start == "api-bench";
    // `arg=<c1>/<c2>`: the argument / generic case below the benchmark (row names and CALL tag)
    let arg = if get("arg") == "-" { None } else { Some(get("arg")) };
    let full_tag = match arg {
        Some(a) => format!("{}/{}", get("bench"), a),
        None => get("bench").to_string(),
    };
    if api_only {
        let mut path = e2e_path(get("bench"));
        if let Some(a) = arg {
            path.push_str("::");
            path.push_str(&a.replace('/', "::"));
        }
        cmd.env("HX_ONLY", path);
    } else {
        // both flags (`cargo bench -- --test`): test mode wins, in either order
        if start == "both-bt" {
            cmd.arg("--bench");
        } else if start == "both-tb" {
            cmd.arg("--test");
        }
        let flag = match start {
            "both-bt" => "--test",
            "both-tb" => "--bench",
            "args-test-then-api-bench" => "--test",
            "args-bench-then-api-test" => "--bench",
            _ if get("mode") == "t" => "--test",
            _ => "--bench",
        };
        // selected by its function name, whatever the groups above it are called
        // `with=a,b`: sibling benchmarks run in the same process (the figures are still those of `bench`)
        let mut names = vec![get("bench")];
        if get("with") != "-" {
            names.extend(get("with").split(','));
        }
        cmd.arg(flag).arg(format!("::({})(::|$)", names.join("|")));
    }
    // time limits as decimal seconds, on the command line or in the environment
    let tenv = get("tvia") == "env";
    // `tvia=builder`: `Divan::max_time(..)` / `min_time(..)` before `config_with_args()`
    let mut builder_time = String::new();
    for (tok, flag, var) in [("maxs", "--max-time", "DIVAN_MAX_TIME"), ("mins", "--min-time", "DIVAN_MIN_TIME")] {
        if get(tok) != "-" {
            if get("tvia") == "attr" || get("tvia") == "seq" {
                // the limit is written in the benchmark's attribute: nothing to pass
            } else if get("tvia") == "builder" {
                builder_time.push_str(&format!(";{}={}", if tok == "maxs" { "max_time" } else { "min_time" }, get(tok)));
            } else if tenv {
                cmd.env(var, get(tok));
            } else {
                cmd.arg(flag).arg(get(tok));
            }
        }
    }
    if get("skipx") == "1" {
        if tenv {
            cmd.env("DIVAN_SKIP_EXT_TIME", "true");
        } else {
            cmd.arg("--skip-ext-time");
        }
    }
    // `bseq=<call;call;..>` (with `tvia=seq`): a sequence of builder calls as written; `maxs`/`mins` then name the
    // limits that must result (the last call per field)
    if get("bseq") != "-" {
        builder_time = format!("{builder_time};{}", get("bseq"));
    }
    // `bskip=0|1`: `Divan::skip_ext_time(false|true)` by the builder, before (`border=sf`) or after the time limits
    if get("bskip") != "-" {
        let call = format!("skip_ext_time={}", if get("bskip") == "1" { "true" } else { "false" });
        // (empty calls between `;` are ignored by the binary)
        builder_time = if get("border") == "sf" { format!("{call};{builder_time}") } else { format!("{builder_time};{call}") };
    }
    if get("vgen") != "-" {
        cmd.env("HX_VGEN", get("vgen"));
    }
    // `astep=<ticks per timestamp read>`, `calib=1`: no overhead override, the process calibrates for real
    if get("astep") != "-" {
        cmd.env("HX_AUTOSTEP", get("astep"));
    }
    if get("calib") == "1" {
        cmd.env("HX_CALIB", "1");
    }
    if get("prec") != "-" {
        cmd.env("HX_PREC", get("prec"));
    }
    // `vcost=<ticks per call>`: the benchmark runs on the virtual timestamp counter (1 tick = 1 ps)
    if get("vcost") != "-" {
        cmd.env("HX_VCLOCK", get("vcost"));
        cmd.arg("--timer").arg("tsc");
    } else if get("timer") != "-" {
        cmd.arg("--timer").arg(get("timer"));
    }
    match get("via") {
        "cli" => {
            if get("n") != "-" {
                cmd.arg("--sample-count").arg(get("n"));
            }
            // `s=-`: no sample size anywhere, the size is tuned
            if get("s") != "-" {
                cmd.arg("--sample-size").arg(get("s"));
            }
            cmd.arg("--threads").arg(get("threads"));
        }
        "env" => {
            if get("n") != "-" {
                cmd.env("DIVAN_SAMPLE_COUNT", get("n"));
            }
            if get("s") != "-" {
                cmd.env("DIVAN_SAMPLE_SIZE", get("s"));
            }
            cmd.env("DIVAN_THREADS", get("threads"));
        }
        "attr+cli-n" => {
            cmd.arg("--sample-count").arg(get("n"));
        }
        // builder calls before `config_with_args()`; nothing on the command line
        "builder" | "builder+env-n" | "builder+env-s" => {
            let via = get("via");
            let bn = if via == "builder+env-n" { get("bn") } else { get("n") };
            let bs = if via == "builder+env-s" { get("bs") } else { get("s") };
            let mut spec = format!("sample_size={bs};threads={}", get("threads"));
            if bn != "-" {
                spec.push_str(&format!(";sample_count={bn}"));
            }
            builder_time = format!("{spec};{builder_time}");
            if via == "builder+env-n" {
                cmd.env("DIVAN_SAMPLE_COUNT", get("n"));
            } else if via == "builder+env-s" {
                cmd.env("DIVAN_SAMPLE_SIZE", get("s"));
            }
        }
        _ => {}
    }
    if !builder_time.is_empty() {
        cmd.env("HX_BUILDER", builder_time.trim_start_matches(';'));
    }
    // `cskip=`: skip_ext_time on the command line (bare flag last, so that nothing can be taken for its value) / in the environment
    match get("cskip") {
        "bare" => {
            cmd.arg("--skip-ext-time");
        }
        "true" => {
            cmd.arg("--skip-ext-time=true");
        }
        "false" => {
            cmd.arg("--skip-ext-time=false");
        }
        "env-true" => {
            cmd.env("DIVAN_SKIP_EXT_TIME", "true");
        }
        "env-false" => {
            cmd.env("DIVAN_SKIP_EXT_TIME", "false");
        }
        _ => {}
    }
    let mut child = cmd.stdout(Stdio::piped()).stderr(Stdio::piped()).spawn().expect("spawn hx-loop-e2e");
    // read both pipes on helper threads so that the child never blocks on a full pipe; 60 s watchdog
    use std::io::Read;
    let mut so = child.stdout.take().expect("stdout");
    let mut se = child.stderr.take().expect("stderr");
    let h_out = std::thread::spawn(move || {
        let mut b = String::new();
        let _ = so.read_to_string(&mut b);
        b
    });
    let h_err = std::thread::spawn(move || {
        let mut b = String::new();
        let _ = se.read_to_string(&mut b);
        b
    });
    let t0 = std::time::Instant::now();
    let status = loop {
        match child.try_wait().expect("wait") {
            Some(st) => break st,
            None if t0.elapsed().as_secs() > 60 => {
                let _ = child.kill();
                let _ = child.wait();
                return "watchdog".to_string();
            }
            None => std::thread::sleep(std::time::Duration::from_millis(2)),
        }
    };
    let stdout = h_out.join().unwrap_or_default();
    let stderr = h_err.join().unwrap_or_default();
    if !status.success() {
        // the panic message, if any, helps to read a replay (no addresses or timings in it)
        let why = stderr.lines().find(|l| l.contains("panicked at")).map(|_| {
            stderr.lines().skip_while(|l| !l.contains("panicked at")).nth(1).unwrap_or("").replace(' ', "_")
        });
        return format!("crash rc={} {}", status.code().unwrap_or(-1), why.unwrap_or_default()).trim_end().to_string();
    }
    let threads: Vec<usize> = get("threads").split(',').map(|t| t.parse().expect("threads")).collect();
    // table rows: `<tree> name  fastest │ slowest │ median │ mean │ samples │ iters`
    let mut figures: BTreeMap<usize, (String, String)> = BTreeMap::new();
    let comps: Vec<&str> = arg.map_or(Vec::new(), |a| a.split('/').collect());
    let mut in_bench = false;
    let mut matched = 0usize; // components of `arg` matched below the benchmark's row
    let mut in_target = false;
    for l in stdout.lines() {
        // the tree part in front of the name uses the same bar as the column separators: strip it first
        let body = l.trim_start_matches(|c: char| "│├╰─ ".contains(c));
        let cells: Vec<&str> = body.split('│').map(|c| c.trim()).collect();
        // the name's cell also holds the `fastest` column
        let name = cells[0].split(' ').next().unwrap_or("");
        let is_t_row = name.starts_with("t=");
        if name == get("bench") {
            in_bench = true;
            matched = 0;
            in_target = comps.is_empty();
        } else if !is_t_row {
            if in_bench && matched < comps.len() && name == comps[matched] {
                matched += 1;
                in_target = matched == comps.len();
            } else {
                // a sibling case or another benchmark
                if in_target {
                    in_bench = false;
                }
                in_target = false;
            }
        }
        if !in_target || cells.len() < 6 || cells[4].is_empty() || !cells[4].chars().all(|c| c.is_ascii_digit()) {
            continue;
        }
        let t = match name.strip_prefix("t=") {
            Some(n) => n.parse().ok(),
            None if threads.len() == 1 => Some(threads[0]),
            // one row for the benchmark although several thread counts are expected: report it as such
            None => Some(0),
        };
        if let Some(t) = t {
            figures.insert(t, (cells[4].to_string(), cells[5].to_string()));
        }
    }
    // stderr: `RUN tag` once per thread count (ascending), `CALL tag <thread index>` per call
    let mut runs: Vec<BTreeMap<usize, u64>> = Vec::new();
    // no `Bencher` parameter, no RUN marker: all calls belong to the single thread count
    if get("nomark") == "1" {
        runs.push(BTreeMap::new());
    }
    for l in stderr.lines() {
        let tok: Vec<&str> = l.split(' ').collect();
        if tok.len() >= 2 && tok[1] != full_tag {
            continue;
        }
        if tok[0] == "RUN" {
            runs.push(BTreeMap::new());
        } else if tok[0] == "CALL" && tok.len() == 3 {
            if let (Some(cur), Ok(i)) = (runs.last_mut(), tok[2].parse::<usize>()) {
                *cur.entry(i).or_insert(0) += 1;
            }
        }
    }
    let mut rows = Vec::new();
    for (i, &t) in threads.iter().enumerate() {
        let (sa, it) = match figures.get(&t) {
            Some((a, b)) if get("mode") != "t" => (a.clone(), b.clone()),
            _ => ("-".to_string(), "-".to_string()),
        };
        let empty = BTreeMap::new();
        let calls = runs.get(i).unwrap_or(&empty);
        let hi = calls.keys().copied().max().map_or(t, |m| (m + 1).max(t));
        rows.push(format!(
            "t={t} samples={sa} iters={it} calls={}",
            join((0..hi).map(|k| calls.get(&k).copied().unwrap_or(0)))
        ));
    }
    if runs.len() != threads.len() {
        rows.push(format!("runs={}", runs.len()));
    }
    if let Some((sa, it)) = figures.get(&0) {
        rows.push(format!("single-row samples={sa} iters={it}"));
    }
    let mut line = rows.join(";");
    if get("evlog") == "1" {
        // the crate's event log as dumped by hx-loop-e2e: `EV thread kind value` in logging order; per thread the
        // START (1) / END (2) readings and the calls (17) between them give every round and its size
        let t = threads.first().copied().unwrap_or(1);
        let step: u64 = if get("astep") == "-" { 0 } else { get("astep").parse().unwrap_or(0) };
        let mut per: Vec<Vec<(u64, Option<u64>, u64)>> = vec![Vec::new(); t];
        let mut open: Vec<Option<(u64, u64)>> = vec![None; t]; // START read and not yet ended, calls so far
        let mut init: Option<u64> = None; // the caller's START that is never ended: the time origin
        let mut first: Option<u64> = None; // the caller's first reading of the run
        let mut cal_end: Option<u64> = None; // the clock after the last calibration reading
        let mut bad = false;
        for l in stderr.lines() {
            let tok: Vec<&str> = l.split(' ').collect();
            if tok.len() != 4 || tok[0] != "EV" {
                continue;
            }
            let (Ok(th), Ok(k), Ok(a)) = (tok[1].parse::<usize>(), tok[2].parse::<u8>(), tok[3].parse::<u64>()) else { continue };
            if th >= t {
                bad = true;
                continue;
            }
            match k {
                1 => {
                    if th == 0 && first.is_none() {
                        first = Some(a);
                    }
                    if let Some((s0, _)) = open[th] {
                        // the previous START was not a sample's: only the caller's origin reading may be
                        if th == 0 && init.is_none() {
                            init = Some(s0);
                        } else {
                            bad = true;
                        }
                    }
                    open[th] = Some((a, 0));
                }
                2 => match open[th].take() {
                    // a START/END pair without a call in between is a reading of the overhead calibration
                    // (`Timer::bench_overheads` on its first use in the process), not a round
                    Some((s0, 0)) if th == 0 && per[0].is_empty() => {
                        let _ = s0;
                        cal_end = Some(a + step);
                    }
                    Some((s0, calls)) => per[th].push((s0, Some(a), calls)),
                    None => bad = true,
                },
                17 => match open[th].as_mut() {
                    Some(o) => o.1 += 1,
                    None => bad = true,
                },
                _ => {}
            }
        }
        if open.iter().any(|o| o.is_some()) {
            bad = true;
        }
        // the clock when the loop reached its time-origin / overhead-lookup lines, and what the calibration took
        let t0 = first.unwrap_or(0);
        let cal = cal_end.map_or(0, |e| e.saturating_sub(t0));
        let k = per[0].len();
        let sizes: Vec<u64> = per[0].iter().map(|r| r.2).collect();
        for p in &per {
            if p.len() != k || p.iter().map(|r| r.2).collect::<Vec<_>>() != sizes || p.iter().any(|r| r.1.is_none()) {
                bad = true;
            }
        }
        let h: Vec<String> = (0..k)
            .map(|r| {
                per.iter()
                    .filter_map(|p| p.get(r))
                    .map(|x| format!("{}:{}:0/0/0/0:0", x.0, x.1.unwrap_or(0)))
                    .collect::<Vec<_>>()
                    .join(",")
            })
            .collect();
        line = format!(
            "{line} sizes={}{} | init={} t0={} cal={} h={}",
            join(sizes),
            if bad { " badlog=1" } else { "" },
            init.map_or("-".to_string(), |i| i.to_string()),
            t0,
            cal,
            h.join(";")
        );
    }
    line
}

/// C03, reported figures on collections too large to run: `s=<sample size> m=<number of samples>` loaded into a
/// `BenchContext` through `stats_from_samples`; prints `Stats.sample_count` / `Stats.iter_count`.
fn run_fig(line: &str) -> String {
    let mut s = 1u32;
    let mut m = 0usize;
    for tok in hxlib::toks(line) {
        match tok.split_once('=') {
            Some(("s", v)) => s = v.parse().expect("s"),
            Some(("m", v)) => m = v.parse().expect("m"),
            _ => panic!("bad token {tok}"),
        }
    }
    let durations = vec![1000u128; m];
    let counts: [Vec<u64>; 4] = Default::default();
    let st = v::stats_from_samples(s, &durations, &[], &counts, [false; 4]);
    format!("samples={} iters={}", st.sample_count, st.iter_count)
}

/// C04, seconds given as plain numbers (attribute `min_time = ..` / `max_time = ..`): `u=<u64>` or `f=<decimal>`
/// through `divan::__private::IntoDuration`; prints the resulting `secs:nanos`.
fn run_dur(line: &str) -> String {
    use divan::__private::IntoDuration;
    let d = match line.split_once('=') {
        Some(("u", v)) => v.parse::<u64>().expect("u64").into_duration(),
        Some(("f", v)) => v.parse::<f64>().expect("f64").into_duration(),
        _ => panic!("bad case {line}"),
    };
    format!("{}:{}", d.as_secs(), d.subsec_nanos())
}

/// C03, `threads = ..` values as the attribute macro converts them: `t=<usize>` (scalar), `a=<list>` (array),
/// `r=<lo>..<hi>` (range) through `divan::__private::IntoThreads`; prints the resulting thread counts.
fn run_thr(line: &str) -> String {
    use divan::__private::IntoThreads;
    let out = match line.split_once('=') {
        Some(("t", v)) => v.parse::<usize>().expect("usize").into_threads(),
        Some(("a", v)) => {
            let l: Vec<usize> = v.split(',').filter(|x| !x.is_empty()).map(|x| x.parse().expect("usize")).collect();
            l.into_threads()
        }
        Some(("r", v)) => {
            let (a, b) = v.split_once("..").expect("range");
            (a.parse::<usize>().expect("lo")..b.parse::<usize>().expect("hi")).into_threads()
        }
        _ => panic!("bad case {line}"),
    };
    join(out.iter())
}

fn dispatch(mode: &str, line: &str) -> String {
    match mode {
        "c03thr" => run_thr(line),
        "c04dur" => run_dur(line),
        "c03fig" => run_fig(line),
        "c03e2e" | "c04cli" | "c04os" | "c19cli" | "c04ev" | "c04cal" => run_e2e(line),
        "c03" | "c04" | "c19" | "loop" => run_case(line),
        _ => panic!("unknown mode {mode}"),
    }
}

fn main() {
    hxlib::run(dispatch);
}
