//! A small real benchmark binary for the end-to-end stream of C03: the real
//! `Divan` runner (`run_bench_entry`: one `BenchContext` per thread count) with
//! `sample_count` / `sample_size` / `threads` set on the command line, in the
//! environment or in the attributes.  Every registered function prints
//! `RUN <tag>` to stderr when the runner enters it (once per thread count) and
//! `CALL <tag> <thread index>` each time the benchmarked closure is called
//! (thread index 0 = the caller, k = pool thread `divan-k`).  The table on
//! stdout carries the `samples` and `iters` figures.
use divan::Bencher;

fn run(tag: &str) {
    eprintln!("RUN {tag}");
}

fn call(tag: &str) {
    eprintln!("CALL {tag} {}", divan::__verif::thread_index());
}

/// Nothing set below the runner: command line / environment decide.
#[divan::bench]
fn plain(b: Bencher) {
    run("plain");
    b.bench(|| call("plain"));
}

/// Same through `with_inputs(..).bench_values`.
#[divan::bench]
fn plain_inputs(b: Bencher) {
    run("plain_inputs");
    b.with_inputs(|| 7u32).bench_values(|x| {
        call("plain_inputs");
        x
    });
}

#[divan::bench(sample_count = 5, sample_size = 3, threads = [1, 2, 3])]
fn a_5_3_t123(b: Bencher) {
    run("a_5_3_t123");
    b.bench(|| call("a_5_3_t123"));
}

#[divan::bench(sample_count = 7, sample_size = 2, threads = [2, 4])]
fn a_7_2_t24(b: Bencher) {
    run("a_7_2_t24");
    b.bench(|| call("a_7_2_t24"));
}

/// Fewer samples than threads.
#[divan::bench(sample_count = 1, sample_size = 4, threads = [1, 3])]
fn a_1_4_t13(b: Bencher) {
    run("a_1_4_t13");
    b.with_inputs(|| String::from("x")).bench_refs(|s| {
        call("a_1_4_t13");
        s.len()
    });
}

#[divan::bench_group(sample_count = 4, sample_size = 2, threads = [1, 2])]
mod grp {
    use super::{call, run};
    use divan::Bencher;

    /// count, size and threads from the group
    #[divan::bench]
    fn g_4_2_t12(b: Bencher) {
        run("g_4_2_t12");
        b.bench(|| call("g_4_2_t12"));
    }

    /// own count and threads, size from the group
    #[divan::bench(sample_count = 3, threads = [2, 3, 4])]
    fn g_3_2_t234(b: Bencher) {
        run("g_3_2_t234");
        b.bench(|| call("g_3_2_t234"));
    }
}

/// A zero time floor set at the benchmark: harmless, the run is complete.
#[divan::bench(sample_count = 5, sample_size = 3, min_time = 0, threads = [1, 2])]
fn a_5_3_t12_min0(b: Bencher) {
    run("a_5_3_t12_min0");
    b.bench(|| call("a_5_3_t12_min0"));
}

/// A zero time ceiling set at the benchmark: nothing is called.
#[divan::bench(sample_count = 5, sample_size = 3, max_time = 0, threads = [1, 2])]
fn a_5_3_t12_max0(b: Bencher) {
    run("a_5_3_t12_max0");
    b.bench(|| call("a_5_3_t12_max0"));
}

#[divan::bench_group(min_time = 0, sample_count = 4)]
mod gmin0 {
    use super::{call, run};
    use divan::Bencher;

    /// floor 0 from the group, count from the group, size own
    #[divan::bench(sample_size = 2, threads = [1, 3])]
    fn g_4_2_t13_min0(b: Bencher) {
        run("g_4_2_t13_min0");
        b.bench(|| call("g_4_2_t13_min0"));
    }
}

#[divan::bench_group(max_time = 0)]
mod gmax0 {
    use super::{call, run};
    use divan::Bencher;

    /// ceiling 0 inherited from the group: nothing is called
    #[divan::bench(sample_count = 3, sample_size = 2, threads = [1, 2])]
    fn g_3_2_t12_max0(b: Bencher) {
        run("g_3_2_t12_max0");
        b.bench(|| call("g_3_2_t12_max0"));
    }

    /// the benchmark's own ceiling wins over the group's zero
    #[divan::bench(sample_count = 3, sample_size = 2, threads = [1, 2], max_time = 100)]
    fn g_3_2_t12_max100(b: Bencher) {
        run("g_3_2_t12_max100");
        b.bench(|| call("g_3_2_t12_max100"));
    }
}

/// `HX_BUILDER`: `;`-separated builder calls (`sample_count=7`, `sample_size=3`,
/// `threads=1,2`, `min_time=SECS`, `max_time=SECS`) applied to `Divan::default()`
/// BEFORE `config_with_args()`, as a `main` that pre-configures the runner does.
fn main() {
    let spec = std::env::var("HX_BUILDER").unwrap_or_default();
    let mut d = divan::Divan::default();
    for c in spec.split(';').filter(|c| !c.is_empty()) {
        let (k, v) = c.split_once('=').expect("builder call");
        d = match k {
            "sample_count" => d.sample_count(v.parse().expect("count")),
            "sample_size" => d.sample_size(v.parse().expect("size")),
            "threads" => d.threads(v.split(',').map(|t| t.parse::<usize>().expect("threads")).collect::<Vec<_>>()),
            "min_time" => d.min_time(std::time::Duration::from_secs_f64(v.parse().expect("secs"))),
            "max_time" => d.max_time(std::time::Duration::from_secs_f64(v.parse().expect("secs"))),
            other => panic!("unknown builder call {other}"),
        };
    }
    d.config_with_args().main();
}
