//! A small real benchmark binary for the end-to-end stream of C03: the real
//! `Divan` runner (`run_bench_entry`: one `BenchContext` per thread count) with
//! `sample_count` / `sample_size` / `threads` set on the command line, in the
//! environment or in the attributes.  Every registered function prints
//! `RUN <tag>` to stderr when the runner enters it (once per thread count) and
//! `CALL <tag> <thread index>` each time the benchmarked closure is called
//! (thread index 0 = the caller, k = pool thread `divan-k`).  The table on
//! stdout carries the `samples` and `iters` figures.
use divan::Bencher;

fn run(tag: &str) {
    eprintln!("RUN {tag}");
}

fn call(tag: &str) {
    eprintln!("CALL {tag} {}", divan::__verif::thread_index());
}

/// Nothing set below the runner: command line / environment decide.
#[divan::bench]
fn plain(b: Bencher) {
    run("plain");
    b.bench(|| call("plain"));
}

/// Same through `with_inputs(..).bench_values`.
#[divan::bench]
fn plain_inputs(b: Bencher) {
    run("plain_inputs");
    b.with_inputs(|| 7u32).bench_values(|x| {
        call("plain_inputs");
        x
    });
}

#[divan::bench(sample_count = 5, sample_size = 3, threads = [1, 2, 3])]
fn a_5_3_t123(b: Bencher) {
    run("a_5_3_t123");
    b.bench(|| call("a_5_3_t123"));
}

#[divan::bench(sample_count = 7, sample_size = 2, threads = [2, 4])]
fn a_7_2_t24(b: Bencher) {
    run("a_7_2_t24");
    b.bench(|| call("a_7_2_t24"));
}

/// Fewer samples than threads.
#[divan::bench(sample_count = 1, sample_size = 4, threads = [1, 3])]
fn a_1_4_t13(b: Bencher) {
    run("a_1_4_t13");
    b.with_inputs(|| String::from("x")).bench_refs(|s| {
        call("a_1_4_t13");
        s.len()
    });
}

#[divan::bench_group(sample_count = 4, sample_size = 2, threads = [1, 2])]
mod grp {
    use super::{call, run};
    use divan::Bencher;

    /// count, size and threads from the group
    #[divan::bench]
    fn g_4_2_t12(b: Bencher) {
        run("g_4_2_t12");
        b.bench(|| call("g_4_2_t12"));
    }

    /// own count and threads, size from the group
    #[divan::bench(sample_count = 3, threads = [2, 3, 4])]
    fn g_3_2_t234(b: Bencher) {
        run("g_3_2_t234");
        b.bench(|| call("g_3_2_t234"));
    }
}

/// A zero time floor set at the benchmark: harmless, the run is complete.
#[divan::bench(sample_count = 5, sample_size = 3, min_time = 0, threads = [1, 2])]
fn a_5_3_t12_min0(b: Bencher) {
    run("a_5_3_t12_min0");
    b.bench(|| call("a_5_3_t12_min0"));
}

/// A zero time ceiling set at the benchmark: nothing is called.
#[divan::bench(sample_count = 5, sample_size = 3, max_time = 0, threads = [1, 2])]
fn a_5_3_t12_max0(b: Bencher) {
    run("a_5_3_t12_max0");
    b.bench(|| call("a_5_3_t12_max0"));
}

#[divan::bench_group(min_time = 0, sample_count = 4)]
mod gmin0 {
    use super::{call, run};
    use divan::Bencher;

    /// floor 0 from the group, count from the group, size own
    #[divan::bench(sample_size = 2, threads = [1, 3])]
    fn g_4_2_t13_min0(b: Bencher) {
        run("g_4_2_t13_min0");
        b.bench(|| call("g_4_2_t13_min0"));
    }
}

#[divan::bench_group(max_time = 0)]
mod gmax0 {
    use super::{call, run};
    use divan::Bencher;

    /// ceiling 0 inherited from the group: nothing is called
    #[divan::bench(sample_count = 3, sample_size = 2, threads = [1, 2])]
    fn g_3_2_t12_max0(b: Bencher) {
        run("g_3_2_t12_max0");
        b.bench(|| call("g_3_2_t12_max0"));
    }

    /// the benchmark's own ceiling wins over the group's zero
    #[divan::bench(sample_count = 3, sample_size = 2, threads = [1, 2], max_time = 100)]
    fn g_3_2_t12_max100(b: Bencher) {
        run("g_3_2_t12_max100");
        b.bench(|| call("g_3_2_t12_max100"));
    }
}

/// A group with a display name: its options must still reach the benchmarks below.
#[divan::bench_group(name = "renamed", sample_count = 3, sample_size = 2)]
mod orig_group {
    use super::{call, run};
    use divan::Bencher;

    /// count and size from the renamed group
    #[divan::bench(threads = [1, 2])]
    fn rg_3_2_t12(b: Bencher) {
        run("rg_3_2_t12");
        b.bench(|| call("rg_3_2_t12"));
    }

    /// a nested group: inherits count and size, sets the threads
    #[divan::bench_group(threads = [2, 3])]
    pub mod inner {
        use super::{call, run};
        use divan::Bencher;

        #[divan::bench]
        fn rgi_3_2_t23(b: Bencher) {
            run("rgi_3_2_t23");
            b.bench(|| call("rgi_3_2_t23"));
        }
    }
}

/// A group on a raw-identifier module.
#[divan::bench_group(threads = 3, sample_count = 4, sample_size = 1)]
mod r#type {
    use super::{call, run};
    use divan::Bencher;

    #[divan::bench]
    fn raw_4_1_t3(b: Bencher) {
        run("raw_4_1_t3");
        b.bench(|| call("raw_4_1_t3"));
    }
}

/// A renamed group with sample_count = 0: nothing below it is called.
#[divan::bench_group(name = "zero", sample_count = 0, sample_size = 2)]
mod zero_group {
    use super::{call, run};
    use divan::Bencher;

    #[divan::bench(threads = [1, 2])]
    fn z_0_2_t12(b: Bencher) {
        run("z_0_2_t12");
        b.bench(|| call("z_0_2_t12"));
    }
}

// ---- argument / generic cases ------------------------------------------------
// Without a `Bencher` parameter the attribute macro starts the sample loop itself
// (there is no place for a RUN marker, so these use a single thread count).

/// argument only
#[divan::bench(args = [1, 2], threads = 2, sample_count = 5, sample_size = 3)]
fn arg_5_3_t2(a: u32) {
    call(&format!("arg_5_3_t2/{a}"));
}

/// argument only, more threads than samples
#[divan::bench(args = [7], threads = 3, sample_count = 2, sample_size = 2)]
fn arg_2_2_t3(a: u32) {
    call(&format!("arg_2_2_t3/{a}"));
}

/// `Bencher` and argument
#[divan::bench(args = [1, 2], threads = [1, 2], sample_count = 5, sample_size = 3)]
fn barg_5_3_t12(b: Bencher, a: u32) {
    run(&format!("barg_5_3_t12/{a}"));
    b.bench(|| call(&format!("barg_5_3_t12/{a}")));
}

/// generic over types, argument only
#[divan::bench(types = [u8, u16], args = [1, 2], threads = 3, sample_count = 4, sample_size = 2)]
fn garg_4_2_t3<T: 'static>(a: u32) {
    let t = std::any::type_name::<T>();
    call(&format!("garg_4_2_t3/{t}/{a}"));
}

/// generic over constants, argument only
#[divan::bench(consts = [4, 8], args = [1], threads = 2, sample_count = 3, sample_size = 2)]
fn carg_3_2_t2<const N: usize>(a: u32) {
    call(&format!("carg_3_2_t2/{N}/{a}"));
}

// ---- siblings with different thread counts (run together, in name order) -------
mod sib {
    use super::{call, run};
    use divan::Bencher;

    #[divan::bench(threads = 2, sample_count = 3, sample_size = 2)]
    fn s1_t2(b: Bencher) {
        run("s1_t2");
        b.bench(|| call("s1_t2"));
    }

    /// no `threads`: one thread, whatever ran before it
    #[divan::bench(sample_count = 3, sample_size = 2)]
    fn s2_plain(b: Bencher) {
        run("s2_plain");
        b.bench(|| call("s2_plain"));
    }

    #[divan::bench(threads = 3, sample_count = 3, sample_size = 2)]
    fn s3_t3(b: Bencher) {
        run("s3_t3");
        b.bench(|| call("s3_t3"));
    }

    #[divan::bench(threads = [1, 2], sample_count = 2, sample_size = 1)]
    fn s4_t12(b: Bencher) {
        run("s4_t12");
        b.bench(|| call("s4_t12"));
    }
}

// ---- parameterless functions with a foreign ABI (the macro wraps them in a closure) ----
#[divan::bench(threads = 2, sample_count = 2, sample_size = 2)]
extern "C" fn ext_c_2_2_t2() {
    call("ext_c_2_2_t2");
}

#[divan::bench(types = [u8, u16], threads = 1, sample_count = 3, sample_size = 1)]
extern "C" fn ext_ty_3_1_t1<T: 'static>() {
    let t = std::any::type_name::<T>();
    call(&format!("ext_ty_3_1_t1/{t}"));
}

#[divan::bench(consts = [4, 8], threads = 2, sample_count = 1, sample_size = 3)]
extern "system" fn ext_const_1_3_t2<const N: usize>() {
    call(&format!("ext_const_1_3_t2/{N}"));
}

// ---- time limits from the command line / environment ------------------------
/// Under the virtual clock (`HX_VCLOCK=<ticks per call>`, 1 tick = 1 ps): every call
/// advances the calling thread's clock by that many ticks, so the round count
/// under `--max-time` / `--min-time` is exact.
#[divan::bench(sample_size = 1)]
fn vclk(b: Bencher) {
    run("vclk");
    let cost: u64 = std::env::var("HX_VCLOCK").ok().and_then(|v| v.parse().ok()).unwrap_or(0);
    b.bench(|| {
        call("vclk");
        divan::__verif::vclock_advance(cost);
    });
}

/// Tuned sample size under the virtual clock (`HX_PREC` = timer precision in ps). The calls are
/// also written to the crate's event log, which `main` dumps (`EV thread kind value`) so that
/// the harness can read back every round: its START/END readings and its size.
fn vcall(tag: &str) {
    let cost: u64 = std::env::var("HX_VCLOCK").ok().and_then(|v| v.parse().ok()).unwrap_or(0);
    call(tag);
    divan::__verif::log_event(divan::__verif::ev::USER + 1, 0, 0);
    divan::__verif::vclock_advance(cost);
}

/// no option at any level below the runner
#[divan::bench]
fn vtune_plain(b: Bencher) {
    run("vtune_plain");
    b.bench(|| vcall("vtune_plain"));
}

/// one attribute option (not the size)
#[divan::bench(sample_count = 3)]
fn vtune_attr(b: Bencher) {
    run("vtune_attr");
    b.bench(|| vcall("vtune_attr"));
}

#[divan::bench_group(sample_count = 4)]
mod vgrp {
    use super::{run, vcall};
    use divan::Bencher;

    /// one option, inherited from the group
    #[divan::bench]
    fn vtune_grp(b: Bencher) {
        run("vtune_grp");
        b.bench(|| vcall("vtune_grp"));
    }
}

/// External time under the virtual clock: the input generator advances the clock by `HX_VGEN`
/// ticks per input (outside the timed section), the call by `HX_VCLOCK` ticks.
fn vgen() -> u32 {
    let g: u64 = std::env::var("HX_VGEN").ok().and_then(|v| v.parse().ok()).unwrap_or(0);
    divan::__verif::vclock_advance(g);
    7
}

/// `skip_ext_time` set at the benchmark
#[divan::bench(skip_ext_time, sample_size = 1)]
fn vskip_attr(b: Bencher) {
    run("vskip_attr");
    b.with_inputs(vgen).bench_values(|x| {
        vcall("vskip_attr");
        x
    });
}

#[divan::bench_group(skip_ext_time = true)]
mod vsgrp {
    use super::{run, vcall, vgen};
    use divan::Bencher;

    /// `skip_ext_time` inherited from the group
    #[divan::bench(sample_size = 1)]
    fn vskip_grp(b: Bencher) {
        run("vskip_grp");
        b.with_inputs(vgen).bench_values(|x| {
            vcall("vskip_grp");
            x
        });
    }
}

/// no `skip_ext_time` below the runner
#[divan::bench(sample_size = 1)]
fn vext_plain(b: Bencher) {
    run("vext_plain");
    b.with_inputs(vgen).bench_values(|x| {
        vcall("vext_plain");
        x
    });
}

// ---- numeric time limits in attributes (seconds; `IntoDuration` for u64 / f64 / Duration) ----
/// a huge whole number of seconds as the ceiling: never reached
#[divan::bench(max_time = u64::MAX, sample_count = 3, sample_size = 1)]
fn vmax_u64max(b: Bencher) {
    run("vmax_u64max");
    b.bench(|| vcall("vmax_u64max"));
}

/// the same through `Duration`
#[divan::bench(max_time = std::time::Duration::from_secs(u64::MAX), sample_count = 3, sample_size = 1)]
fn vmax_durmax(b: Bencher) {
    run("vmax_durmax");
    b.bench(|| vcall("vmax_durmax"));
}

/// a huge floor above a small fractional ceiling: the ceiling ends the run
#[divan::bench(min_time = u64::MAX, max_time = 0.000002, sample_count = 2, sample_size = 1)]
fn vmin_u64max(b: Bencher) {
    run("vmin_u64max");
    b.bench(|| vcall("vmin_u64max"));
}

#[divan::bench(min_time = std::time::Duration::from_secs(u64::MAX), max_time = 0.000002, sample_count = 2, sample_size = 1)]
fn vmin_durmax(b: Bencher) {
    run("vmin_durmax");
    b.bench(|| vcall("vmin_durmax"));
}

/// a floor just below 2^64 s above a small ceiling
#[divan::bench(min_time = 18446744073709550591u64, max_time = 0.000002, sample_count = 2, sample_size = 1)]
fn vmin_big(b: Bencher) {
    run("vmin_big");
    b.bench(|| vcall("vmin_big"));
}

/// a whole number of seconds above 2^53 (not representable as f64) as the ceiling
#[divan::bench(max_time = 9007199254740993u64, sample_count = 3, sample_size = 1)]
fn vmax_2p53(b: Bencher) {
    run("vmax_2p53");
    b.bench(|| vcall("vmax_2p53"));
}

/// scalar `threads = 64` (run in test mode: one call on each of 64 threads)
#[divan::bench(threads = 64, sample_count = 65, sample_size = 1)]
fn thr64(b: Bencher) {
    run("thr64");
    b.bench(|| call("thr64"));
}

/// the ceiling written in the attribute, external time in the generator: `skip_ext_time` can then be
/// the ONLY option given at run time
#[divan::bench(max_time = 0.000001, sample_size = 1)]
fn vattr_max(b: Bencher) {
    run("vattr_max");
    b.with_inputs(vgen).bench_values(|x| {
        vcall("vattr_max");
        x
    });
}

#[divan::bench_group(max_time = 0.000001, sample_size = 1)]
mod vmgrp {
    use super::{run, vcall, vgen};
    use divan::Bencher;

    /// ceiling and size inherited from the group
    #[divan::bench]
    fn vgrp_max(b: Bencher) {
        run("vgrp_max");
        b.with_inputs(vgen).bench_values(|x| {
            vcall("vgrp_max");
            x
        });
    }
}

// ---- a zero ceiling written as a float / as a `Duration`: nothing is called ----
#[divan::bench(sample_count = 5, sample_size = 3, max_time = 0.0, threads = [1, 2])]
fn a_5_3_t12_max0f(b: Bencher) {
    run("a_5_3_t12_max0f");
    b.bench(|| call("a_5_3_t12_max0f"));
}

#[divan::bench(sample_count = 2, sample_size = 2, max_time = std::time::Duration::ZERO, threads = [1, 3])]
fn a_2_2_t13_max0d(b: Bencher) {
    run("a_2_2_t13_max0d");
    b.bench(|| call("a_2_2_t13_max0d"));
}

#[divan::bench_group(max_time = 0.0)]
mod gmax0f {
    use super::{call, run};
    use divan::Bencher;

    /// float zero ceiling inherited from the group
    #[divan::bench(sample_count = 3, sample_size = 2, threads = [1, 2])]
    fn g_3_2_t12_max0f(b: Bencher) {
        run("g_3_2_t12_max0f");
        b.bench(|| call("g_3_2_t12_max0f"));
    }
}

/// On the OS timer: every call really takes at least 400 ms.
#[divan::bench(sample_count = 6, sample_size = 1)]
fn os_sleep400(b: Bencher) {
    run("os_sleep400");
    b.bench(|| {
        call("os_sleep400");
        std::thread::sleep(std::time::Duration::from_millis(400));
    });
}

/// Display paths of all benchmarks of this binary (for `HX_ONLY`).
const ALL: &[&str] = &[
    "hx_loop_e2e::plain",
    "hx_loop_e2e::plain_inputs",
    "hx_loop_e2e::a_5_3_t123",
    "hx_loop_e2e::a_7_2_t24",
    "hx_loop_e2e::a_1_4_t13",
    "hx_loop_e2e::grp::g_4_2_t12",
    "hx_loop_e2e::grp::g_3_2_t234",
    "hx_loop_e2e::a_5_3_t12_min0",
    "hx_loop_e2e::a_5_3_t12_max0",
    "hx_loop_e2e::gmin0::g_4_2_t13_min0",
    "hx_loop_e2e::gmax0::g_3_2_t12_max0",
    "hx_loop_e2e::gmax0::g_3_2_t12_max100",
    "hx_loop_e2e::renamed::rg_3_2_t12",
    "hx_loop_e2e::renamed::inner::rgi_3_2_t23",
    "hx_loop_e2e::type::raw_4_1_t3",
    "hx_loop_e2e::zero::z_0_2_t12",
    "hx_loop_e2e::arg_5_3_t2::1",
    "hx_loop_e2e::arg_5_3_t2::2",
    "hx_loop_e2e::arg_2_2_t3::7",
    "hx_loop_e2e::barg_5_3_t12::1",
    "hx_loop_e2e::barg_5_3_t12::2",
    "hx_loop_e2e::garg_4_2_t3::u8::1",
    "hx_loop_e2e::garg_4_2_t3::u8::2",
    "hx_loop_e2e::garg_4_2_t3::u16::1",
    "hx_loop_e2e::garg_4_2_t3::u16::2",
    "hx_loop_e2e::carg_3_2_t2::4::1",
    "hx_loop_e2e::carg_3_2_t2::8::1",
    "hx_loop_e2e::sib::s1_t2",
    "hx_loop_e2e::sib::s2_plain",
    "hx_loop_e2e::sib::s3_t3",
    "hx_loop_e2e::sib::s4_t12",
    "hx_loop_e2e::ext_c_2_2_t2",
    "hx_loop_e2e::ext_ty_3_1_t1::u8",
    "hx_loop_e2e::ext_ty_3_1_t1::u16",
    "hx_loop_e2e::ext_const_1_3_t2::4",
    "hx_loop_e2e::ext_const_1_3_t2::8",
    "hx_loop_e2e::vclk",
    "hx_loop_e2e::os_sleep400",
    "hx_loop_e2e::vtune_plain",
    "hx_loop_e2e::vtune_attr",
    "hx_loop_e2e::vgrp::vtune_grp",
    "hx_loop_e2e::vskip_attr",
    "hx_loop_e2e::vsgrp::vskip_grp",
    "hx_loop_e2e::vext_plain",
    "hx_loop_e2e::vmax_u64max",
    "hx_loop_e2e::vmax_durmax",
    "hx_loop_e2e::vmin_u64max",
    "hx_loop_e2e::vmin_durmax",
    "hx_loop_e2e::a_5_3_t12_max0f",
    "hx_loop_e2e::a_2_2_t13_max0d",
    "hx_loop_e2e::gmax0f::g_3_2_t12_max0f",
    "hx_loop_e2e::thr64",
    "hx_loop_e2e::vattr_max",
    "hx_loop_e2e::vmgrp::vgrp_max",
    "hx_loop_e2e::vmin_big",
    "hx_loop_e2e::vmax_2p53",
];

/// `HX_BUILDER`: `;`-separated builder calls (`sample_count=7`, `sample_size=3`,
/// `threads=1,2`, `min_time=SECS`, `max_time=SECS`) applied to `Divan::default()`
/// BEFORE `config_with_args()`, as a `main` that pre-configures the runner does.
///
/// `HX_START` selects how the run is started:
/// `main` (default): `config_with_args().main()` — the action comes from the arguments;
/// `api-test` / `api-bench`: no argument parsing, `test_benches()` / `run_benches()` on the
///   pre-configured default runner (`HX_ONLY=<path>`: every other benchmark is skipped);
/// `args-test-then-api-bench` / `args-bench-then-api-test`: the runner is configured from the
///   arguments for one action and then asked for the other through the API.
/// The REQUESTED action decides what must happen.
fn main() {
    let spec = std::env::var("HX_BUILDER").unwrap_or_default();
    let mut d = divan::Divan::default();
    for c in spec.split(';').filter(|c| !c.is_empty()) {
        let (k, v) = c.split_once('=').expect("builder call");
        d = match k {
            "sample_count" => d.sample_count(v.parse().expect("count")),
            "sample_size" => d.sample_size(v.parse().expect("size")),
            "threads" => d.threads(v.split(',').map(|t| t.parse::<usize>().expect("threads")).collect::<Vec<_>>()),
            "min_time" => d.min_time(std::time::Duration::from_secs_f64(v.parse().expect("secs"))),
            "max_time" => d.max_time(std::time::Duration::from_secs_f64(v.parse().expect("secs"))),
            "skip_ext_time" => d.skip_ext_time(v == "true"),
            other => panic!("unknown builder call {other}"),
        };
    }
    if std::env::var("HX_VCLOCK").is_ok() {
        // virtual timestamp counter at 10^12 Hz (use with `--timer tsc`); the precision and the
        // overheads cannot be measured on a clock that only the benchmark body advances
        // `HX_AUTOSTEP`: every timestamp read advances the reading thread's clock by that many ticks
        let step: u64 = std::env::var("HX_AUTOSTEP").ok().and_then(|v| v.parse().ok()).unwrap_or(0);
        divan::__verif::vclock_set(0);
        divan::__verif::vclock_enable(1_000_000_000_000, step);
        let prec: u128 = std::env::var("HX_PREC").ok().and_then(|v| v.parse().ok()).unwrap_or(1);
        divan::__verif::set_precision_override(Some(prec));
        divan::__verif::log_reserve(1 << 18);
        divan::__verif::log_enable(true);
        // `HX_CALIB=1`: no overhead override, so the first benchmark of the process runs the real
        // overhead calibration (`Timer::bench_overheads`), whose timestamp reads advance the clock
        if std::env::var("HX_CALIB").is_err() {
            divan::__verif::set_overhead_override(Some([0; 4]));
        }
    }
    let start = std::env::var("HX_START").unwrap_or_else(|_| "main".to_string());
    match start.as_str() {
        "main" => d.config_with_args().main(),
        "api-test" | "api-bench" => {
            if let Ok(only) = std::env::var("HX_ONLY") {
                assert!(ALL.contains(&only.as_str()), "unknown benchmark {only}");
                for p in ALL.iter().filter(|p| **p != only) {
                    d = d.skip_exact(*p);
                }
            }
            if start == "api-test" {
                d.test_benches()
            } else {
                d.run_benches()
            }
        }
        "args-test-then-api-bench" => d.config_with_args().run_benches(),
        "args-bench-then-api-test" => d.config_with_args().test_benches(),
        // builder calls, then `config_with_args()`, then the API (the arguments carry only the filter)
        "builder-args-api-bench" => d.config_with_args().run_benches(),
        other => panic!("unknown HX_START {other}"),
    }
    if std::env::var("HX_VCLOCK").is_ok() {
        divan::__verif::log_enable(false);
        for e in divan::__verif::log_take() {
            eprintln!("EV {} {} {}", e.thread, e.kind, e.a);
        }
    }
}
