//! Real macro-generated benchmarks for the end-to-end stream of C16: run as
//! `hx-sort-e2e --list --sort <attr>` / `--sortr <attr>` it goes through the real
//! `Divan::main()` -> `run_action` pipeline and prints the sorted tree; run as
//! `hx-sort-e2e describe` it prints its own registry in the item format of the
//! tree stream (see src/tree.rs), with address ranks.
//!
//! Display names are chosen to order differently from the identifiers, generic
//! types are not in ascending token order, constants have mixed signs.
use divan::__private::{BENCH_ENTRIES, GROUP_ENTRIES};

#[divan::bench_group(name = "zulu")]
mod a_first {
    #[divan::bench]
    fn x() {}
    #[divan::bench(name = "b10")]
    fn first() {}
    #[divan::bench(name = "b2")]
    fn second() {}
}

#[divan::bench_group(name = "mike")]
mod b_second {
    #[divan::bench]
    fn y() {}
}

#[divan::bench_group(name = "echo")]
mod c_third {
    #[divan::bench]
    fn z() {}
    pub mod inner9 {
        #[divan::bench]
        fn deep() {}
    }
    pub mod inner10 {
        #[divan::bench]
        fn deep() {}
    }
}

#[divan::bench_group(name = "bravo")]
mod d_fourth {
    #[divan::bench(args = [10, 9, 1, 100, 2])]
    fn with_args(_n: u32) {}
}

mod plain {
    #[divan::bench(args = ["1.5", "1.10", "1.5a", "abc", "-3"])]
    fn str_args(_s: &str) {}
    #[divan::bench(name = "a01")]
    fn late() {}
    #[divan::bench(name = "a1")]
    fn later() {}
}

#[divan::bench(name = "yankee", types = [u8, u16, String, i32, &str])]
fn alpha<T>() {}

#[divan::bench(name = "delta", consts = [3, -1, -10, 0, -5, 12])]
fn zeta<const N: i32>() {}

#[divan::bench(types = [u16, String, u8], consts = [2, 10, 1])]
fn both<T, const N: usize>() {}

#[divan::bench]
fn top() {}

// ---- argument identity under --test: which VALUE does each row receive? -------------
// `Size` has a lossy Display (three different values print "1KB"); `strs` has equal
// Strings in separate slots.  The bodies report what they received on stderr.
const SIZES: [u32; 6] = [1024, 2048, 1100, 512, 1500, 10240];
const STRS: [&str; 4] = ["dup", "x", "dup", "a"];

#[derive(Clone, Copy)]
struct Size(u32);

impl std::fmt::Display for Size {
    fn fmt(&self, f: &mut std::fmt::Formatter<'_>) -> std::fmt::Result {
        write!(f, "{}KB", self.0 / 1024)
    }
}

mod recv {
    use super::{Size, SIZES, STRS};

    #[divan::bench(args = SIZES.map(Size))]
    fn lossy(s: Size) {
        eprintln!("RECV lossy {}", s.0);
    }

    #[divan::bench(args = STRS.map(String::from))]
    fn strs(s: &String) {
        eprintln!("RECV strs {}", s as *const String as usize);
    }
}

/// What the macros cannot be asked for at run time: arguments and generic
/// parameters by raw name, in declaration order.
fn extra(raw: &str) -> &'static str {
    match raw {
        "with_args" => "0=10,9,1,100,2",
        "str_args" => "1=1.5,1.10,1.5a,abc,-3",
        "lossy" => "6=1KB,2KB,1KB,0KB,1KB,10KB",
        "strs" => "7=dup,x,dup,a",
        "alpha" => "t:0=u8,1=u16,4=String,2=i32,6=%26str",
        "zeta" => "c:i:3=3,-1=-1,-10=-10,0=0,-5=-5,12=12",
        "both" => "t:1=u16,4=String,0=u8!c:i:2=2,10=10,1=1",
        _ => "-",
    }
}

fn enc2(s: &str) -> String {
    if s.is_empty() {
        return "%_".to_string();
    }
    let mut out = String::new();
    for &b in s.as_bytes() {
        if b.is_ascii_alphanumeric() || b == b'_' || b == b'.' || b == b'-' {
            out.push(b as char);
        } else {
            out.push_str(&format!("%{b:02X}"));
        }
    }
    out
}

fn describe() {
    let mut items: Vec<(usize, String)> = vec![];
    for b in BENCH_ENTRIES.iter() {
        let m = &b.meta;
        items.push((
            b as *const _ as usize,
            format!("B;{{}};{};{};{};{};{};{};{}", enc2(m.module_path), enc2(m.display_name), enc2(m.raw_name),
                    enc2(m.location.file), m.location.line, m.location.col, extra(m.raw_name)),
        ));
    }
    for g in GROUP_ENTRIES.iter() {
        let m = &g.meta;
        let ex = extra(m.raw_name);
        // shape check of the generated arrays against the table
        if let Some(gb) = g.generic_benches {
            let n: usize = gb.iter().map(|inner| inner.len()).sum();
            let want = {
                let t = ex.split('!').find(|p| p.starts_with("t:")).map(|p| p.matches('=').count()).unwrap_or(1);
                let c = ex.split('!').find(|p| p.starts_with("c:")).map(|p| p.matches('=').count()).unwrap_or(1);
                t * c
            };
            assert_eq!(n, want, "generic table of {}", m.raw_name);
        }
        items.push((
            g as *const _ as usize,
            format!("G;{{}};{};{};{};{};{};{};{}", enc2(m.module_path), enc2(m.display_name), enc2(m.raw_name),
                    enc2(m.location.file), m.location.line, m.location.col, ex),
        ));
    }
    // ranks by address; the order of the line is the registration order
    let mut addrs: Vec<usize> = items.iter().map(|(a, _)| *a).collect();
    addrs.sort();
    let line: Vec<String> = items
        .iter()
        .map(|(a, s)| s.replacen("{}", &addrs.iter().position(|x| x == a).unwrap().to_string(), 1))
        .collect();
    println!("{}", line.join(" "));
}

fn main() {
    if std::env::args().nth(1).as_deref() == Some("describe") {
        describe();
    } else if std::env::args().nth(1).as_deref() == Some("describe-args") {
        // declared values and labels, in declaration order
        println!("lossy {}", SIZES.iter().map(|&v| format!("{}={}", v, Size(v))).collect::<Vec<_>>().join(","));
        println!("strs {}", STRS.join(","));
    } else {
        divan::main();
    }
}
