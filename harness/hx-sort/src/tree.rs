//! Tree sibling order through `__verif::tree_dump`.
//!
//! Case: `<attr> <rev> [F:<filter>] <item> <item> ...`, items with `;`-separated fields
//! (names percent-escaped):
//!   `B;rank;module_path;display;raw;file;line;col;args`   args = `-` | `<k>=<names>`
//!   `G;rank;module_path;display;raw;file;line;col;gen`    gen  = `-` | `[t:<i>=<name>,...][!c:<kind>:<v>=<name>,...]`
//! const kinds: `i` i64, `j` i128, `k` i8, `c` char, `b` bool.
//! `F:-` keeps every path, `F:<text>` drops the paths containing `<text>`: the
//! pipeline is from_benches -> insert_group -> retain -> sort_by_attr exactly as
//! `Divan::run_action` (retain renders every display name before the sort).
//! The same entries are then sorted a second time in this process, by another
//! attribute in the other direction (state carried by the entries between two
//! sorts); output: `<first dump> || <second dump>`.
//! `rank` fixes the relative addresses of the entries: all `BenchEntry` and
//! `GroupEntry` values live in one leaked arena, in rank order.  Generic
//! benchmarks live in one leaked array per type, in declaration order, as the
//! macro generates them.
use divan::__private::{
    BenchArgs, BenchEntry, BenchEntryRunner, EntryConst, EntryLocation, EntryMeta, EntryType,
    GenericBenchEntry, GroupEntry,
};
use divan::__verif as v;

use crate::{attr_of, dec_name, dec_names, enc2};

fn leak(s: String) -> &'static str {
    Box::leak(s.into_boxed_str())
}

fn noop(_: divan::Bencher) {}

// ---- fixed argument lists (a `fn() -> BenchArgsRunner` cannot capture) ------

const ARGS_TABLE: [&[&str]; 6] = [
    &["10", "9", "1", "100", "2"],
    &["1.5", "1.10", "1.5a", "abc", "-3"],
    &["b", "a", "c"],
    &["0", "-0", "-0.0", "00"],
    &["x2", "x10", "x1", "x02"],
    &["1e3", "999", "inf", "nan", "1000.5", "-inf"],
];

macro_rules! args_runner {
    ($idx:expr) => {
        BenchEntryRunner::Args(|| {
            static ARGS: BenchArgs = BenchArgs::new();
            ARGS.runner(|| ARGS_TABLE[$idx], |a| a.to_string(), |_b: divan::Bencher, _a: &&&str| {})
        })
    };
}

fn args_runner(k: usize) -> BenchEntryRunner {
    match k {
        0 => args_runner!(0),
        1 => args_runner!(1),
        2 => args_runner!(2),
        3 => args_runner!(3),
        4 => args_runner!(4),
        5 => args_runner!(5),
        _ => panic!("argument table index"),
    }
}

// ---- fixed generic types ---------------------------------------------------

pub struct T1;
pub struct T2;
pub struct T10;
pub struct T02;

fn entry_type(i: usize) -> EntryType {
    match i {
        0 => EntryType::new::<u8>(),
        1 => EntryType::new::<u16>(),
        2 => EntryType::new::<u32>(),
        3 => EntryType::new::<i64>(),
        4 => EntryType::new::<String>(),
        5 => EntryType::new::<Vec<u8>>(),
        6 => EntryType::new::<&'static str>(),
        7 => EntryType::new::<T1>(),
        8 => EntryType::new::<T2>(),
        9 => EntryType::new::<T10>(),
        10 => EntryType::new::<T02>(),
        11 => EntryType::new::<Vec<String>>(),
        _ => panic!("type index"),
    }
}

/// Display name divan derives for the type (through a throw-away entry).
fn type_display(i: usize) -> String {
    static G: GroupEntry = GroupEntry {
        meta: EntryMeta {
            display_name: "g",
            raw_name: "g",
            module_path: "m",
            location: EntryLocation { file: "f", line: 1, col: 1 },
            bench_options: None,
        },
        generic_benches: None,
    };
    let e: &'static GenericBenchEntry = Box::leak(Box::new(GenericBenchEntry {
        group: &G,
        bench: BenchEntryRunner::Plain(noop),
        ty: Some(entry_type(i)),
        const_value: None,
    }));
    let gs: &'static [&'static [GenericBenchEntry]] =
        Box::leak(vec![std::slice::from_ref(e)].into_boxed_slice());
    let g: &'static GroupEntry = Box::leak(Box::new(GroupEntry {
        meta: EntryMeta {
            display_name: "g",
            raw_name: "g",
            module_path: "m",
            location: EntryLocation { file: "f", line: 1, col: 1 },
            bench_options: None,
        },
        generic_benches: Some(gs),
    }));
    let d = v::tree_dump(&[], &[g], None, None);
    // lines: "0\tP\tm", "1\tP\tg", "2\tL\t<name>"
    d.last().expect("dump").rsplit('\t').next().unwrap().to_string()
}

enum Slot {
    B(BenchEntry),
    G(GroupEntry),
}

struct Item {
    is_group: bool,
    rank: usize,
    meta: EntryMeta,
    args: Option<(usize, Vec<String>)>,
    types: Vec<(usize, String)>,
    consts: Option<(char, Vec<(i128, String)>)>,
}

fn parse_item(tok: &str) -> Item {
    let f: Vec<&str> = tok.split(';').collect();
    assert!(f.len() == 9, "item fields");
    let meta = EntryMeta {
        module_path: leak(dec_name(f[2])),
        display_name: leak(dec_name(f[3])),
        raw_name: leak(dec_name(f[4])),
        location: EntryLocation {
            file: leak(dec_name(f[5])),
            line: f[6].parse().unwrap(),
            col: f[7].parse().unwrap(),
        },
        bench_options: None,
    };
    let mut it = Item {
        is_group: f[0] == "G",
        rank: f[1].parse().unwrap(),
        meta,
        args: None,
        types: vec![],
        consts: None,
    };
    if f[8] != "-" {
        if it.is_group {
            for part in f[8].split('!') {
                if let Some(ts) = part.strip_prefix("t:") {
                    for t in ts.split(',') {
                        let (i, n) = t.split_once('=').unwrap();
                        it.types.push((i.parse().unwrap(), dec_name(n)));
                    }
                } else if let Some(cs) = part.strip_prefix("c:") {
                    let (k, vs) = cs.split_once(':').unwrap();
                    let vals = vs
                        .split(',')
                        .map(|t| {
                            let (x, n) = t.split_once('=').unwrap();
                            (x.parse::<i128>().unwrap(), dec_name(n))
                        })
                        .collect();
                    it.consts = Some((k.chars().next().unwrap(), vals));
                }
            }
        } else {
            let (k, names) = f[8].split_once('=').unwrap();
            it.args = Some((k.parse().unwrap(), dec_names(names)));
        }
    }
    it
}

fn entry_const(kind: char, value: i128, name: &str) -> EntryConst {
    match kind {
        'i' => {
            let x = value as i64;
            assert_eq!(x.to_string(), name, "const name");
            EntryConst::new::<i64>(Box::leak(Box::new(x)))
        }
        'j' => {
            assert_eq!(value.to_string(), name, "const name");
            EntryConst::new::<i128>(Box::leak(Box::new(value)))
        }
        'k' => {
            let x = value as i8;
            assert_eq!(x.to_string(), name, "const name");
            EntryConst::new::<i8>(Box::leak(Box::new(x)))
        }
        'c' => {
            let c = char::from_u32(value as u32).expect("char");
            assert_eq!(c.to_string(), name, "const name");
            EntryConst::new::<char>(Box::leak(Box::new(c)))
        }
        'b' => {
            let b = value != 0;
            assert_eq!(b.to_string(), name, "const name");
            EntryConst::new::<bool>(Box::leak(Box::new(b)))
        }
        _ => panic!("const kind"),
    }
}

fn dump_line(dump: &[String]) -> String {
    if dump.is_empty() {
        return "-".to_string();
    }
    dump.iter()
        .map(|l| {
            let f: Vec<&str> = l.split('\t').collect();
            let mut s = format!("{}:{}:{}", f[0], f[1], enc2(f[2]));
            if f.len() > 3 {
                s.push_str(":a:");
                if f.len() == 4 {
                    s.push_str("%0");
                } else {
                    s.push_str(&f[4..].iter().map(|a| enc2(a)).collect::<Vec<_>>().join(","));
                }
            }
            s
        })
        .collect::<Vec<_>>()
        .join(" ")
}

/// The second sort of a case: another attribute, the other direction.
pub fn second_sort(attr: u8, reverse: bool) -> (u8, bool) {
    (match attr { 0 => 1, 1 => 0, _ => 1 }, !reverse)
}

pub fn tree(line: &str) -> String {
    let toks = hxlib::toks(line);
    let attr = attr_of(toks[0]);
    let reverse = toks[1] == "1";
    // optional third token `F:<text>`; without it every path is kept (a filter is always passed)
    let (drop_text, first_item): (Option<String>, usize) = match toks.get(2).and_then(|t| t.strip_prefix("F:")) {
        Some("-") => (None, 3),
        Some(t) => (Some(dec_name(t)), 3),
        None => (None, 2),
    };
    let items: Vec<Item> = toks[first_item..].iter().filter(|t| !t.is_empty()).map(|t| parse_item(t)).collect();

    // arena in rank order
    let mut order: Vec<usize> = (0..items.len()).collect();
    order.sort_by_key(|&i| items[i].rank);
    let mut arena: Vec<Slot> = Vec::with_capacity(items.len());
    let mut slot_of = vec![0usize; items.len()];
    let mut items: Vec<Option<Item>> = items.into_iter().map(Some).collect();
    let mut extra: Vec<(usize, Vec<(usize, String)>, Option<(char, Vec<(i128, String)>)>)> = vec![];
    for (slot, &i) in order.iter().enumerate() {
        let it = items[i].take().unwrap();
        slot_of[i] = slot;
        if it.is_group {
            extra.push((slot, it.types, it.consts));
            arena.push(Slot::G(GroupEntry { meta: it.meta, generic_benches: None }));
        } else {
            let bench = match it.args {
                None => BenchEntryRunner::Plain(noop),
                Some((k, names)) => {
                    let want: Vec<String> = ARGS_TABLE[k].iter().map(|s| s.to_string()).collect();
                    assert_eq!(want, names, "argument table {k}");
                    args_runner(k)
                }
            };
            arena.push(Slot::B(BenchEntry { meta: it.meta, bench }));
        }
    }
    let arena: &'static mut [Slot] = Box::leak(arena.into_boxed_slice());
    let base: *mut Slot = arena.as_mut_ptr();

    // generic benchmarks of the groups (need the group's address first)
    for (slot, types, consts) in extra {
        if types.is_empty() && consts.is_none() {
            continue;
        }
        let gptr: *mut GroupEntry = unsafe {
            match &mut *base.add(slot) {
                Slot::G(g) => g as *mut GroupEntry,
                _ => unreachable!(),
            }
        };
        let gref: &'static GroupEntry = unsafe { &*gptr };
        for (i, n) in &types {
            assert_eq!(&type_display(*i), n, "type table {i}");
        }
        let outer: Vec<&'static [GenericBenchEntry]> = match (&consts, types.is_empty()) {
            (None, _) => {
                // types only: one inner array with every type
                let inner: Vec<GenericBenchEntry> = types
                    .iter()
                    .map(|(i, _)| GenericBenchEntry {
                        group: gref,
                        bench: BenchEntryRunner::Plain(noop),
                        ty: Some(entry_type(*i)),
                        const_value: None,
                    })
                    .collect();
                vec![Box::leak(inner.into_boxed_slice())]
            }
            (Some((k, vals)), true) => {
                let inner: Vec<GenericBenchEntry> = vals
                    .iter()
                    .map(|(x, n)| GenericBenchEntry {
                        group: gref,
                        bench: BenchEntryRunner::Plain(noop),
                        ty: None,
                        const_value: Some(entry_const(*k, *x, n)),
                    })
                    .collect();
                vec![Box::leak(inner.into_boxed_slice())]
            }
            (Some((k, vals)), false) => types
                .iter()
                .map(|(i, _)| {
                    let inner: Vec<GenericBenchEntry> = vals
                        .iter()
                        .map(|(x, n)| GenericBenchEntry {
                            group: gref,
                            bench: BenchEntryRunner::Plain(noop),
                            ty: Some(entry_type(*i)),
                            const_value: Some(entry_const(*k, *x, n)),
                        })
                        .collect();
                    let s: &'static [GenericBenchEntry] = Box::leak(inner.into_boxed_slice());
                    s
                })
                .collect(),
        };
        let outer: &'static [&'static [GenericBenchEntry]] = Box::leak(outer.into_boxed_slice());
        unsafe {
            (*gptr).generic_benches = Some(outer);
        }
    }

    let arena: &'static [Slot] = unsafe { std::slice::from_raw_parts(base, order.len()) };
    let mut benches: Vec<&'static BenchEntry> = vec![];
    let mut groups: Vec<&'static GroupEntry> = vec![];
    for i in 0..order.len() {
        match &arena[slot_of[i]] {
            Slot::B(b) => benches.push(b),
            Slot::G(g) => groups.push(g),
        }
    }
    let mut keep = |p: &str| match &drop_text {
        None => true,
        Some(t) => !p.contains(t.as_str()),
    };
    let first = v::tree_dump(&benches, &groups, Some(&mut keep), Some((attr, reverse)));
    let (attr2, reverse2) = second_sort(attr, reverse);
    let second = v::tree_dump(&benches, &groups, Some(&mut keep), Some((attr2, reverse2)));
    format!("{} || {}", dump_line(&first), dump_line(&second))
}
