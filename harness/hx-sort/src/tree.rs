//! Tree sibling order through `__verif::tree_dump` (filled in below).
pub fn tree(_line: &str) -> String {
    "todo".to_string()
}
