//! Harness for C16 driving the real crate (built from /repo's working tree with
//! `--cfg divan_verif`): natural order, argument-name comparator, argument
//! sorting, tree sibling order.  One mode per stream of the correspondence check.
use divan::__verif as v;

mod tree;

/// Names are percent-escaped: bytes 0x21..0x7e except '%', ',' and '#' stand for
/// themselves, "%XX" is the byte XX, "%_" is the empty name, "%0" the empty list.
pub fn dec_name(s: &str) -> String {
    if s == "%_" {
        return String::new();
    }
    let b = s.as_bytes();
    let mut out = Vec::with_capacity(b.len());
    let mut i = 0;
    while i < b.len() {
        if b[i] == b'%' {
            let h = std::str::from_utf8(&b[i + 1..i + 3]).expect("escape");
            out.push(u8::from_str_radix(h, 16).expect("hex"));
            i += 3;
        } else {
            out.push(b[i]);
            i += 1;
        }
    }
    String::from_utf8(out).expect("case names must be valid UTF-8")
}

pub fn dec_names(s: &str) -> Vec<String> {
    if s == "%0" {
        return Vec::new();
    }
    s.split(',').map(dec_name).collect()
}

pub fn enc_name(s: &str) -> String {
    if s.is_empty() {
        return "%_".to_string();
    }
    let mut out = String::new();
    for &b in s.as_bytes() {
        if (0x21..=0x7e).contains(&b) && b != b'%' && b != b',' && b != b'#' {
            out.push(b as char);
        } else {
            out.push_str(&format!("%{b:02X}"));
        }
    }
    out
}

/// Stricter escaping for outputs with `:`/`,`/`;` separators: only
/// `[A-Za-z0-9_.-]` stand for themselves.
pub fn enc2(s: &str) -> String {
    if s.is_empty() {
        return "%_".to_string();
    }
    let mut out = String::new();
    for &b in s.as_bytes() {
        if b.is_ascii_alphanumeric() || b == b'_' || b == b'.' || b == b'-' {
            out.push(b as char);
        } else {
            out.push_str(&format!("%{b:02X}"));
        }
    }
    out
}

fn ord_s(o: i8) -> &'static str {
    match o {
        -1 => "lt",
        0 => "eq",
        _ => "gt",
    }
}

pub fn attr_of(s: &str) -> u8 {
    match s {
        "kind" => 0,
        "name" => 1,
        "location" => 2,
        _ => panic!("attr {s}"),
    }
}

fn nat(line: &str) -> String {
    let t = hxlib::toks(line);
    let (a, b) = (dec_name(t[0]), dec_name(t[1]));
    ord_s(v::natural_cmp(&a, &b)).to_string()
}

/// What `str::parse::<f64>` returned for each name (the recorded float oracle).
fn f64_table(names: &[String]) -> String {
    let cells: Vec<String> = names
        .iter()
        .map(|s| match s.parse::<f64>() {
            Err(_) => "none".to_string(),
            Ok(x) if x.is_nan() => "nan".to_string(),
            Ok(x) => format!("{:016x}", x.to_bits()),
        })
        .collect();
    format!("f64:{}", cells.join(","))
}

fn cmp(line: &str) -> String {
    let t = hxlib::toks(line);
    let attr = attr_of(t[0]);
    let i: usize = t[1].parse().unwrap();
    let j: usize = t[2].parse().unwrap();
    let names = dec_names(t[3]);
    let refs: Vec<&str> = names.iter().map(|s| s.as_str()).collect();
    format!("{} | {}", ord_s(v::cmp_bench_arg_names(attr, &refs, i, j)), f64_table(&names))
}

fn sort(line: &str) -> String {
    let t = hxlib::toks(line);
    let attr = attr_of(t[0]);
    let reverse = t[1] == "1";
    let names = dec_names(t[2]);
    let refs: Vec<&str> = names.iter().map(|s| s.as_str()).collect();
    let perm = v::sort_arg_names(attr, reverse, &refs);
    let res = if perm.is_empty() {
        "ok -".to_string()
    } else {
        format!("ok {}", perm.iter().map(|i| i.to_string()).collect::<Vec<_>>().join(","))
    };
    format!("{} | {}", res, f64_table(&names))
}

/// What `str::parse::<f64>` makes of a name: `none`, `nan`, or the sign and
/// the bit pattern (recorded for the out-of-domain stream).
fn f64_of(line: &str) -> String {
    let s = dec_name(line);
    match s.parse::<f64>() {
        Err(_) => "none".to_string(),
        Ok(x) if x.is_nan() => "nan".to_string(),
        Ok(x) => format!("{:016x}", x.to_bits()),
    }
}

/// End to end: the real macro-generated registry of `hx-sort-e2e`, listed by the
/// real `Divan::main()` (`--list --sort <attr>` / `--sortr <attr>`) in a child
/// process.  Case: `<attr> <rev> [cl:<flag>=<attr>,<flag>=<attr>,...]`: without the third
/// token the command line is the one flag `--sort <attr>` / `--sortr <attr>`; with it the flags
/// are passed in that order (the first two tokens then state which choice is specified to
/// win: the last flag); `ev:sort=<attr>` / `ev:sortr=<attr>` instead sets DIVAN_SORT /
/// DIVAN_SORTR for the child and passes no flag.  Output: `<registry items> => <depth:name ...>`.
fn e2e(line: &str) -> String {
    let t = hxlib::toks(line);
    let exe = std::env::current_exe().expect("exe").with_file_name("hx-sort-e2e");
    let env_choice: Option<(String, String)> = t.get(2).and_then(|x| x.strip_prefix("ev:")).map(|e| {
        let (k, a) = e.split_once('=').expect("ev pair");
        assert!(k == "sort" || k == "sortr", "env kind");
        (format!("DIVAN_{}", k.to_uppercase()), a.to_string())
    });
    let run = |args: &[&str]| -> String {
        let mut cmd = std::process::Command::new(&exe);
        cmd.args(args).env_remove("DIVAN_SORT").env_remove("DIVAN_SORTR");
        if let Some((k, a)) = &env_choice {
            cmd.env(k, a);
        }
        let out = cmd.output().expect("spawn hx-sort-e2e");
        if !out.status.success() {
            panic!("child failed: {}", String::from_utf8_lossy(&out.stderr));
        }
        String::from_utf8(out.stdout).expect("utf8")
    };
    let items = run(&["describe"]).trim().to_string();
    let mut args: Vec<String> = vec!["--list".to_string()];
    match t.get(2).and_then(|x| x.strip_prefix("cl:")) {
        Some(cl) => {
            for pair in cl.split(',') {
                let (flag, attr) = pair.split_once('=').expect("cl pair");
                assert!(flag == "sort" || flag == "sortr", "flag");
                args.push(format!("--{flag}"));
                args.push(attr.to_string());
            }
        }
        None if env_choice.is_some() => {}
        None => {
            args.push(if t[1] == "1" { "--sortr" } else { "--sort" }.to_string());
            args.push(t[0].to_string());
        }
    }
    let argv: Vec<&str> = args.iter().map(|s| s.as_str()).collect();
    let listing = run(&argv);
    let mut rows = vec![];
    for l in listing.lines() {
        if l.is_empty() {
            continue;
        }
        let chars: Vec<char> = l.chars().collect();
        let mut depth = 0;
        let mut start = 0;
        for i in 0..chars.len().saturating_sub(1) {
            if chars[i] == '\u{2500}' && chars[i + 1] == ' ' {
                depth = (i + 2) / 3;
                start = i + 2;
                break;
            }
        }
        let name: String = chars[start..].iter().collect();
        rows.push(format!("{}:{}", depth, enc2(&name)));
    }
    format!("{} => {}", items, rows.join(" "))
}

/// End to end under `--test`: which declared argument does each row of `recv::lossy` /
/// `recv::strs` receive, in run order?  Case: `<attr> <rev> <bench>`.  Output in the format
/// of the `sort` mode: `ok <declared positions in run order> | f64:... | names:<labels>`.
fn e2erun(line: &str) -> String {
    let t = hxlib::toks(line);
    let bench = t[2];
    let exe = std::env::current_exe().expect("exe").with_file_name("hx-sort-e2e");
    let decl = std::process::Command::new(&exe).arg("describe-args").output().expect("spawn");
    let decl = String::from_utf8(decl.stdout).expect("utf8");
    let spec = decl.lines().find_map(|l| l.strip_prefix(&format!("{bench} "))).expect("bench in describe-args").to_string();
    let flag = if t[1] == "1" { "--sortr" } else { "--sort" };
    let out = std::process::Command::new(&exe)
        .args(["--test", flag, t[0], &format!("recv::{bench}")])
        .output()
        .expect("spawn hx-sort-e2e");
    if !out.status.success() {
        panic!("child failed: {}", String::from_utf8_lossy(&out.stderr));
    }
    let err = String::from_utf8_lossy(&out.stderr).to_string();
    let recv: Vec<u64> = err
        .lines()
        .filter_map(|l| l.strip_prefix(&format!("RECV {bench} ")))
        .map(|v| v.trim().parse().expect("recv value"))
        .collect();
    let (labels, positions): (Vec<String>, Vec<usize>) = if bench == "lossy" {
        let pairs: Vec<(u64, String)> = spec
            .split(',')
            .map(|p| {
                let (v, l) = p.split_once('=').unwrap();
                (v.parse().unwrap(), l.to_string())
            })
            .collect();
        let pos = recv.iter().map(|v| pairs.iter().position(|(d, _)| d == v).expect("declared value")).collect();
        (pairs.into_iter().map(|(_, l)| l).collect(), pos)
    } else {
        // slots of one slice: position = offset from the lowest address seen, in slots
        let labels: Vec<String> = spec.split(',').map(|s| s.to_string()).collect();
        let base = recv.iter().copied().min().unwrap_or(0);
        let sz = std::mem::size_of::<String>() as u64;
        (labels, recv.iter().map(|a| ((a - base) / sz) as usize).collect())
    };
    let perm = if positions.is_empty() {
        "-".to_string()
    } else {
        positions.iter().map(|p| p.to_string()).collect::<Vec<_>>().join(",")
    };
    format!(
        "ok {} | {} | names:{}",
        perm,
        f64_table(&labels),
        labels.iter().map(|l| enc_name(l)).collect::<Vec<_>>().join(",")
    )
}

fn dispatch(mode: &str, line: &str) -> String {
    match mode {
        "nat" => nat(line),
        "cmp" | "wcmp" => cmp(line),
        "sort" | "wsort" => sort(line),
        "f64" => f64_of(line),
        "tree" => tree::tree(line),
        "e2e" => e2e(line),
        "e2erun" => e2erun(line),
        _ => panic!("unknown mode {mode}"),
    }
}

fn main() {
    hxlib::run(dispatch);
}
