(* ---- group sample: C01, C02 ---- *)

let two32 = n_of_string "4294967296"

type case = {
  cfg : rcfg; th : int; panic : (psite * int * int) option; scr : scripts;
  tuned : bool; flim : nat option;
  cstat : (ckind -> kstat) option;   (* from a counter-call sequence [cq=]; None: plain [cs=] mask *)
}

let bits4 s =
  if String.length s <> 4 then failwith "four bits expected";
  (s.[0] = '1', s.[1] = '1', s.[2] = '1', s.[3] = '1')

let entry_of_int = function
  | 0 -> EBench | 1 -> EBenchLocal | 2 -> EValues | 3 -> ELocalValues | 4 -> ERefs | 5 -> ELocalRefs
  | _ -> failwith "entry"

let parse_script s =
  if s = "-" || s = "" then []
  else List.map (fun t ->
      let n () = n_of_string (String.sub t 1 (String.length t - 1)) in
      match t.[0] with
      | 'a' -> TA (n ()) | 'd' -> TD | 'g' -> TG (n ()) | 's' -> TS (n ()) | 'k' -> TK | 't' -> TT | 'z' -> TZ (n ()) | 'r' -> TR
      | _ -> failwith ("script token " ^ t)) (String.split_on_char ',' s)

let kind_of_letter = function "B" -> Bytes | "C" -> Chars | "Y" -> Cycles | "I" -> Items | s -> failwith ("kind " ^ s)

(* counter calls in the order applied to the bencher; [w] (with_inputs) does not touch the counters *)
let parse_cq v : ccall list =
  List.concat_map (fun t ->
      if t = "" || t = "w" then []
      else
        let k = kind_of_letter (String.sub t 1 (String.length t - 1)) in
        match t.[0] with
        | 'i' -> [CInput (k, true)]
        | 'a' -> [CInput (k, false)]     (* count_inputs_as: the closure is the crate's own *)
        | 'c' -> [CConst k]
        | _ -> failwith ("counter call " ^ t)) (String.split_on_char ',' v)

let parse_case line : case =
  let e = ref 0 and sh = ref "0000" and cs = ref "0000" and u = ref false and ss = ref 1 and sc = ref 1
  and th = ref 1 and test = ref false and p = ref None and tuned = ref false and flim = ref None
  and cq = ref None
  and g = ref [] and k = ref [] and f = ref [] and o = ref [] and i = ref [] in
  List.iter (fun tok ->
      match String.index_opt tok '=' with
      | None -> failwith ("bad token " ^ tok)
      | Some j ->
        let key = String.sub tok 0 j and v = String.sub tok (j + 1) (String.length tok - j - 1) in
        (match key with
         | "e" -> e := int_of_string v
         | "sh" -> sh := v
         | "cs" -> cs := v
         | "cq" -> if v <> "-" then cq := Some (resolve (parse_cq v))
         | "it" -> ()     (* u64 inputs: sized, no destructor, numbered by ordinals like every other input *)
         | "u" -> u := (v = "1")
         | "ss" -> if v = "-" then (tuned := true; ss := 1) else ss := int_of_string v
         | "cost" | "prec" | "max" -> ()     (* clock parameters and time ceiling: the round sizes they lead to come from the history *)
         | "FL" -> if v <> "-" then flim := Some (nat_of_int (int_of_string v))
         | "sc" -> sc := int_of_string v
         | "th" -> th := int_of_string v
         | "test" -> test := (v = "1")
         | "p" ->
           if v <> "-" then
             (match String.split_on_char ':' v with
              | [s; pt; pk] -> p := Some ((if s = "g" then PanicGen else PanicCall), int_of_string pt, int_of_string pk)
              | _ -> failwith "p")
         | "G" -> g := parse_script v
         | "K" -> k := parse_script v
         | "F" -> f := parse_script v
         | "O" -> o := parse_script v
         | "I" -> i := parse_script v
         | _ -> failwith ("unknown key " ^ key))) (toks line);
  if !th < 1 then failwith "th";
  let (a, b, c, d) = bits4 !sh in
  let (c0, c1, c2, c3) = bits4 !cs in
  let rcs = match !cq with
    | Some st -> counters_in_force st true
    | None -> { c_bytes = c0; c_chars = c1; c_cycles = c2; c_items = c3 } in
  { cfg = { r_entry = entry_of_int !e;
            r_shape = { i_zst = a; i_drop = b; o_zst = c; o_drop = d };
            r_cs = rcs;
            r_udrop = !u; r_size = nat_of_int !ss; r_count = nat_of_int !sc;
            r_aux = nat_of_int (!th - 1); r_test = !test };
    th = !th; panic = !p; tuned = !tuned; flim = !flim; cstat = !cq;
    scr = { sc_gen = !g; sc_count = !k; sc_call = !f; sc_dropout = !o; sc_dropin = !i } }

(* ---- events <-> tokens ---- *)

let id_s (x : n) =
  let (q, r) = N.div_eucl x two32 in
  string_of_n q ^ "." ^ string_of_n r

let id_of_s s =
  match String.split_on_char '.' s with
  | [t; o] -> N.add (N.mul (n_of_string t) two32) (n_of_string o)
  | _ -> failwith ("bad id " ^ s)

let kind_s = function Bytes -> "B" | Chars -> "C" | Cycles -> "Y" | Items -> "I"
let kind_of_c = function 'B' -> Bytes | 'C' -> Chars | 'Y' -> Cycles | 'I' -> Items | _ -> failwith "kind"

let ev_s (e : n oev) =
  match e with
  | OGen i -> "g" ^ id_s i
  | OCount (k, i) -> "n" ^ kind_s k ^ id_s i
  | OBarArrive b -> "ba" ^ string_of_int (int_of_nat b)
  | OBarLeave b -> "bl" ^ string_of_int (int_of_nat b)
  | OClear -> "clr"
  | OTsStart -> "ts"
  | OCall (i, o) -> "c" ^ id_s i ^ "/" ^ id_s o
  | OUDropIn i -> "u" ^ id_s i
  | OTsEnd -> "te"
  | OSnapshot -> "snap"
  | ODropOut o -> "o" ^ id_s o
  | ODropIn i -> "i" ^ id_s i
  | OCallPanic i -> "pc" ^ id_s i
  | OGenPanic -> "pg"

let rest s k = String.sub s k (String.length s - k)

let ev_of_s (s : string) : n oev =
  if s = "clr" then OClear
  else if s = "ts" then OTsStart
  else if s = "te" then OTsEnd
  else if s = "snap" then OSnapshot
  else if s = "pg" then OGenPanic
  else if String.length s >= 3 && String.sub s 0 2 = "ba" then OBarArrive (nat_of_int (int_of_string (rest s 2)))
  else if String.length s >= 3 && String.sub s 0 2 = "bl" then OBarLeave (nat_of_int (int_of_string (rest s 2)))
  else if String.length s >= 3 && String.sub s 0 2 = "pc" then OCallPanic (id_of_s (rest s 2))
  else match s.[0] with
    | 'g' -> OGen (id_of_s (rest s 1))
    | 'q' -> OGen (id_of_s (rest s 1))   (* user code producing a value (a Clone of a benchmark argument): a generation *)
    | 'n' -> OCount (kind_of_c s.[1], id_of_s (rest s 2))
    | 'c' ->
      (match String.split_on_char '/' (rest s 1) with
       | [i; o] -> OCall (id_of_s i, id_of_s o)
       | _ -> failwith ("bad call " ^ s))
    | 'u' -> OUDropIn (id_of_s (rest s 1))
    | 'o' -> ODropOut (id_of_s (rest s 1))
    | 'x' -> ODropOut (id_of_s (rest s 1))   (* an output dropped inside a call *)
    | 'i' -> ODropIn (id_of_s (rest s 1))
    | _ -> failwith ("bad event " ^ s)

let fig_s (idx, (f : figures)) =
  let p (a, b) = string_of_n a ^ "," ^ string_of_n b in
  string_of_int (int_of_nat idx) ^ ":" ^ p f.f_grow ^ "," ^ p f.f_shrink ^ "," ^ p f.f_alloc ^ "," ^ p f.f_dealloc
  ^ "," ^ string_of_z f.f_cur_count ^ "," ^ string_of_z f.f_max_count
  ^ "," ^ string_of_z f.f_cur_size ^ "," ^ string_of_z f.f_max_size

(* ---- model run ---- *)

let fires (c : case) =
  match c.panic with
  | Some (site, pt, k) -> panic_fires c.cfg site (nat_of_int pt) (nat_of_int k)
  | None -> false

let model_logs (c : case) : n oev list list =
  let nthreads = max c.th (int_of_nat (eff_aux c.cfg) + 1) in
  List.init nthreads (fun t ->
      if t > int_of_nat (eff_aux c.cfg) then []
      else match c.panic with
        | Some (site, pt, k) when fires c -> thread_log_panic c.cfg site (nat_of_int pt) (nat_of_int k) (nat_of_int t)
        | _ -> thread_log c.cfg (nat_of_int t))

let model_allocs (c : case) =
  if fires c then [] else run_alloc_infos c.cfg (sample_figures c.cfg c.scr [])

let spec_allocs (c : case) =
  if fires c then [] else run_alloc_infos c.cfg (Some (spec_figures c.cfg c.scr))

(* expected per-kind counters: computed from inputs (one count of 1 per recorded sample, every input counts 1),
   constant 7, or none *)
let counts_section (c : case) (recorded : int) : string option =
  match c.cstat with
  | None -> None
  | Some st ->
    Some (String.concat " " (List.map (fun k ->
        kind_s k ^ (match st k with
            | KInput _ -> ":i:" ^ String.concat "," (List.init recorded (fun _ -> "1"))
            | KConst -> ":c:7"
            | KNone -> ":-:")) [Bytes; Chars; Cycles; Items]))

let render ?counts res logs allocs =
  let b = Buffer.create 256 in
  Buffer.add_string b res;
  List.iteri (fun t l ->
      Buffer.add_string b (" | T" ^ string_of_int t);
      List.iter (fun e -> Buffer.add_char b ' '; Buffer.add_string b (ev_s e)) l) logs;
  Buffer.add_string b " | A";
  List.iter (fun a -> Buffer.add_char b ' '; Buffer.add_string b (fig_s a)) allocs;
  (match counts with
   | Some (Some s) -> Buffer.add_string b " | C"; if s <> "" then (Buffer.add_char b ' '; Buffer.add_string b s)
   | _ -> ());
  Buffer.contents b

let model_line line =
  let c = parse_case line in
  (* the model's own program must respect the memory discipline *)
  let prog = sample_prog c.cfg.r_entry c.cfg.r_shape (eff_size c.cfg) c.cfg.r_cs c.cfg.r_udrop in
  if not (exec_ok prog) then "model-fault"
  else
    let recorded = if c.cfg.r_test then 0 else int_of_nat (rounds c.cfg) * (int_of_nat (eff_aux c.cfg) + 1) in
    let counts = if fires c then (match c.cstat with Some _ -> Some "" | None -> None) else counts_section c recorded in
    render ~counts (if fires c then "panic" else "ok") (model_logs c) (model_allocs c)

(* ---- parse an implementation line ---- *)

let split_on_bar s =
  (* sections are separated by " | " *)
  let parts = ref [] and cur = Buffer.create 64 in
  let n = String.length s in
  let i = ref 0 in
  while !i < n do
    if !i + 2 < n && s.[!i] = ' ' && s.[!i + 1] = '|' && s.[!i + 2] = ' ' then begin
      parts := Buffer.contents cur :: !parts; Buffer.clear cur; i := !i + 3
    end else begin Buffer.add_char cur s.[!i]; incr i end
  done;
  parts := Buffer.contents cur :: !parts;
  List.rev !parts

type impl = { res : string; logs : n oev list list; allocs : string list; counts : string option }

let parse_impl (s : string) : impl option =
  match split_on_bar s with
  | res :: sections when res = "ok" || res = "panic" ->
    let logs = ref [] and allocs = ref [] and counts = ref None in
    List.iter (fun sec ->
        match List.filter (fun x -> x <> "") (toks sec) with
        | "A" :: l -> allocs := l
        | "C" :: l -> counts := Some (String.concat " " l)
        | t :: l when String.length t >= 2 && t.[0] = 'T' -> logs := List.map ev_of_s l :: !logs
        | _ -> failwith ("bad section " ^ sec)) sections;
    Some { res; logs = List.rev !logs; allocs = !allocs; counts = !counts }
  | _ -> None

let clause_s = function
  | ClGenOnce -> "generated-once" | ClCountOnce -> "counted-once-per-kind-before-start"
  | ClCallOnce -> "called-once-in-order-in-timed-section" | ClTimedPure -> "timed-section-only-calls"
  | ClOrder -> "clear-start-end-snapshot-order" | ClDropOutOnce -> "output-dropped-once-after-snapshot"
  | ClDropInOnce -> "lent-input-dropped-once-after-its-output" | ClByValueDropped -> "by-value-input-dropped-by-framework"
  | ClUserDrop -> "drop-inside-call-of-foreign-value" | ClLeak -> "calls-missing-or-value-never-dropped"
  | ClPanicEvent -> "panic-marker"

let map_ev_n f (e : n oev) : nat oev =
  match e with
  | OGen i -> OGen (f i) | OCount (k, i) -> OCount (k, f i) | OBarArrive b -> OBarArrive b | OBarLeave b -> OBarLeave b
  | OClear -> OClear | OTsStart -> OTsStart | OCall (i, o) -> OCall (f i, f o) | OUDropIn i -> OUDropIn (f i)
  | OTsEnd -> OTsEnd | OSnapshot -> OSnapshot | ODropOut o -> ODropOut (f o) | ODropIn i -> ODropIn (f i)
  | OCallPanic i -> OCallPanic (f i) | OGenPanic -> OGenPanic

(* Why [sb_thread] is false: diagnosis only (the verdict is the extracted [sb_thread]). *)
let explain_thread (c : case) t (l : n oev list) : string =
  let cfg = c.cfg in
  let m = mcfg_of cfg.r_entry cfg.r_shape (eff_size cfg) cfg.r_cs in
  if t > int_of_nat (eff_aux cfg) then "thread-must-not-run"
  else
    let l' = if t = 0 then (match l with OTsStart :: r -> r | [] -> [] | _ -> l) else l in
    let ss = split_samples l' in
    if List.length ss <> int_of_nat (rounds cfg) then
      Printf.sprintf "sample-count:%d-expected:%d" (List.length ss) (int_of_nat (rounds cfg))
    else begin
      let msg = ref "thread-affinity-or-timed-split" in
      (try
         List.iteri (fun k s ->
             let f = localize (nat_of_int t) (nat_of_int (k * int_of_nat m.m_n)) m.m_n in
             let loc = List.map (map_ev_n f) s in
             (match mon_run m loc mstate0 O with
              | MBad (cl, pos) -> msg := Printf.sprintf "sample:%d:event:%d:%s" k (int_of_nat pos) (clause_s cl); raise Exit
              | MOk st -> if not (mon_final m st) then (msg := Printf.sprintf "sample:%d:end:%s" k (clause_s ClLeak); raise Exit));
             if not (sb_timed s) then (msg := Printf.sprintf "sample:%d:%s" k (clause_s ClTimedPure); raise Exit)) ss
       with Exit -> ());
      !msg
    end

let check_threads (c : case) (im : impl) : string option =
  let bad = ref None in
  List.iteri (fun t l ->
      if !bad = None && not (sb_thread c.cfg (nat_of_int t) l) then
        bad := Some (Printf.sprintf "thread:%d:%s" t (explain_thread c t l))) im.logs;
  (* threads that must run but have no section *)
  if !bad = None && List.length im.logs <= int_of_nat (eff_aux c.cfg) then bad := Some "thread-missing";
  !bad

let run_sb ~(alloc : bool) line =
  let (cl, il) = split_sb line in
  let c = parse_case cl in
  match parse_impl il with
  | None -> verdict false ("outcome:" ^ il)
  | Some im ->
    if im.res <> "ok" then verdict false "unexpected-panic"
    else match check_threads c im with
      | Some why -> verdict false why
      | None ->
        let want = List.map fig_s (spec_allocs c) in
        let recorded = if c.cfg.r_test then 0 else int_of_nat (rounds c.cfg) * (int_of_nat (eff_aux c.cfg) + 1) in
        if im.allocs <> want then
          verdict false (if alloc then "sample-figures-are-not-the-tally-of-the-calls" else "allocation-reported-without-user-allocation")
        else if im.counts <> counts_section c recorded then verdict false "an-input-counter-in-force-was-not-shown-every-input"
        else "true"

let panic_sb line =
  let (cl, il) = split_sb line in
  let c = parse_case cl in
  match parse_impl il with
  | None -> verdict false ("outcome:" ^ il)
  | Some im ->
    if (im.res = "panic") <> fires c then verdict false ("run-ended-with:" ^ im.res)
    else begin
      let bad = ref None in
      List.iteri (fun t l ->
          if !bad = None && not (sb_nodouble l) then bad := Some (Printf.sprintf "thread:%d:double-drop-or-use-after-drop" t)) im.logs;
      (* a thread that the _local forms must not use *)
      List.iteri (fun t l -> if !bad = None && t > int_of_nat (eff_aux c.cfg) && l <> [] then bad := Some "thread-must-not-run") im.logs;
      match !bad with Some w -> verdict false w | None -> "true"
    end

(* ---- tuned sample size: round sizes come from the recorded history (thread 0's log) ---- *)

let sizes_of_impl (im : impl) : int list =
  match im.logs with
  | [] -> []
  | l0 :: _ ->
    let l' = (match l0 with OTsStart :: r -> r | l -> l) in
    List.map (fun s -> List.length (List.filter (function OCall _ -> true | _ -> false) s)) (split_samples l')

let prefix_sums sizes =
  let rec go acc = function [] -> [] | n :: r -> (n, acc) :: go (acc + n) r in
  go 0 sizes

(* the rounds whose samples are kept: from the first round with the final size on *)
let kept_rounds sizes =
  match List.rev sizes with
  | [] -> []
  | last :: _ ->
    let rec drop = function (n, b) :: r when n <> last -> drop r | l -> l in
    drop (prefix_sums sizes)

let tuned_allocs (c : case) sizes (fig : int -> int -> figures option) =
  let t = int_of_nat (eff_aux c.cfg) + 1 in
  List.concat (List.mapi (fun j (n, base) ->
      match fig n base with
      | Some f when not (figures_empty f) -> List.init t (fun k -> (nat_of_int (j * t + k), f))
      | _ -> []) (kept_rounds sizes))

let tuned_model line =
  let (cl, il) = split_sb line in
  let c = parse_case cl in
  match parse_impl il with
  | None -> "no-history " ^ il
  | Some im ->
    let sizes = sizes_of_impl im in
    let nsizes = List.map nat_of_int sizes in
    let nthreads = max c.th (int_of_nat (eff_aux c.cfg) + 1) in
    let logs = List.init nthreads (fun t ->
        if t > int_of_nat (eff_aux c.cfg) then [] else thread_log_sizes c.cfg nsizes (nat_of_int t)) in
    let allocs = tuned_allocs c sizes (fun n base ->
        sample_figures_at c.cfg c.scr c.flim (nat_of_int n) (nat_of_int base) []) in
    let recorded = List.length (kept_rounds sizes) * (int_of_nat (eff_aux c.cfg) + 1) in
    render ~counts:(counts_section c recorded) "ok" logs allocs

let explain_sizes (c : case) sizes t (l : n oev list) : string =
  let cfg = c.cfg in
  if t > int_of_nat (eff_aux cfg) then "thread-must-not-run"
  else
    let l' = if t = 0 then (match l with OTsStart :: r -> r | [] -> [] | _ -> l) else l in
    let ss = split_samples l' in
    if List.length ss <> List.length sizes then
      Printf.sprintf "sample-count:%d-thread0:%d" (List.length ss) (List.length sizes)
    else begin
      let msg = ref "thread-affinity-or-timed-split" in
      (try
         List.iteri (fun k (s, (n, base)) ->
             let m = mcfg_of cfg.r_entry cfg.r_shape (nat_of_int n) cfg.r_cs in
             let f = localize (nat_of_int t) (nat_of_int base) m.m_n in
             let loc = List.map (map_ev_n f) s in
             (match mon_run m loc mstate0 O with
              | MBad (cl, pos) -> msg := Printf.sprintf "round:%d:size:%d:event:%d:%s" k n (int_of_nat pos) (clause_s cl); raise Exit
              | MOk st -> if not (mon_final m st) then (msg := Printf.sprintf "round:%d:size:%d:end:%s" k n (clause_s ClLeak); raise Exit));
             if not (sb_timed s) then (msg := Printf.sprintf "round:%d:%s" k (clause_s ClTimedPure); raise Exit))
           (List.combine ss (prefix_sums sizes))
       with Exit -> ());
      !msg
    end

let tuned_sb line =
  let (cl, il) = split_sb line in
  let c = parse_case cl in
  match parse_impl il with
  | None -> verdict false ("outcome:" ^ il)
  | Some im ->
    if im.res <> "ok" then verdict false "unexpected-panic"
    else begin
      let sizes = sizes_of_impl im in
      let nsizes = List.map nat_of_int sizes in
      let bad = ref None in
      if sizes = [] || List.exists (fun n -> n = 0) sizes then bad := Some "no-round-ran";
      List.iteri (fun t l ->
          if !bad = None && not (sb_thread_sizes c.cfg nsizes (nat_of_int t) l) then
            bad := Some (Printf.sprintf "thread:%d:%s" t (explain_sizes c sizes t l))) im.logs;
      if !bad = None && List.length im.logs <= int_of_nat (eff_aux c.cfg) then bad := Some "thread-missing";
      match !bad with
      | Some w -> verdict false w
      | None ->
        let want = List.map fig_s (tuned_allocs c sizes (fun n base ->
            Some (spec_figures_at c.cfg c.scr c.flim (nat_of_int n) (nat_of_int base)))) in
        let recorded = List.length (kept_rounds sizes) * (int_of_nat (eff_aux c.cfg) + 1) in
        if im.allocs <> want then verdict false "kept-sample-figures-are-not-the-tally-of-its-own-calls"
        else if im.counts <> counts_section c recorded then verdict false "an-input-counter-in-force-was-not-shown-every-input"
        else "true"
    end

(* ---- real-macro binary: every wrapper arm of #[divan::bench] ends in Bencher::bench(f) with an output
   that owns a Box (sized, destructor); the body allocates 8 bytes, the destructor frees them ---- *)

let e2e_case line : case =
  let ss = ref "1" and sc = ref "1" and th = ref "1" and test = ref "0" in
  List.iter (fun tok ->
      match String.split_on_char '=' tok with
      | ["bench"; _] -> ()
      | ["ss"; v] -> ss := v | ["sc"; v] -> sc := v | ["th"; v] -> th := v | ["test"; v] -> test := v
      | _ -> failwith ("e2e token " ^ tok)) (toks line);
  parse_case (Printf.sprintf "e=0 sh=0001 cs=0000 u=1 ss=%s sc=%s th=%s test=%s p=- G=- K=- F=a8 O=- I=-" !ss !sc !th !test)

(* the allocation rows the table must show: the operations with a non-zero tally in the samples' figures *)
let e2e_labels (c : case) : string =
  if c.cfg.r_test || int_of_nat (rounds c.cfg) = 0 then ""
  else
    let f = spec_figures c.cfg c.scr in
    let nz (a, _) = a <> N0 in
    String.concat "," (List.filter_map (fun (l, t) -> if nz t then Some l else None)
                         [("grow", f.f_grow); ("shrink", f.f_shrink); ("alloc", f.f_alloc); ("dealloc", f.f_dealloc)])

let e2e_render logs labels =
  let b = Buffer.create 256 in
  Buffer.add_string b "ok";
  List.iteri (fun t l ->
      Buffer.add_string b (" | T" ^ string_of_int t);
      List.iter (fun e -> Buffer.add_char b ' '; Buffer.add_string b (ev_s e)) l) logs;
  Buffer.add_string b (" | M " ^ labels);
  Buffer.contents b

let e2e_model line =
  let c = e2e_case line in
  e2e_render (model_logs c) (e2e_labels c)

let e2e_sb line =
  let (cl, il) = split_sb line in
  let c = e2e_case cl in
  (* split off the " | M labels" section *)
  let marker = " | M " in
  let rec find i = if i + String.length marker > String.length il then None
    else if String.sub il i (String.length marker) = marker then Some i else find (i + 1) in
  match find 0 with
  | None -> verdict false ("outcome:" ^ il)
  | Some i ->
    let body = String.sub il 0 i and labels = String.sub il (i + String.length marker) (String.length il - i - String.length marker) in
    (match parse_impl body with
     | None -> verdict false ("outcome:" ^ il)
     | Some im ->
       if im.res <> "ok" then verdict false "unexpected-panic"
       else match check_threads c im with
         | Some why -> verdict false why
         | None ->
           if labels <> e2e_labels c then
             verdict false ("table-attributes-to-the-samples:" ^ labels ^ ":expected:" ^ e2e_labels c)
           else "true")

let dispatch mode line =
  match mode with
  | "run" | "alloc" | "panic" -> model_line line
  | "e2e" -> e2e_model line
  | "e2e.sb" -> e2e_sb line
  | "tuned" | "tuned-alloc" -> tuned_model line
  | "tuned.sb" | "tuned-alloc.sb" -> tuned_sb line
  | "run.sb" -> run_sb ~alloc:false line
  | "alloc.sb" -> run_sb ~alloc:true line
  | "panic.sb" -> panic_sb line
  | _ -> failwith ("unknown mode " ^ mode)

let () = main dispatch
