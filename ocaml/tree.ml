(* Driver of the group "tree" (C14, C12, C17): parses the case format of
   harness/hx-run/src/spec.rs, runs the extracted model of run_action for every
   action named in the case and prints the canonical line the harness prints. *)

(* ---- strings ---- *)
let dec (s : string) : string =
  let b = Buffer.create (String.length s) in
  let n = String.length s in
  let i = ref 0 in
  while !i < n do
    if s.[!i] = '%' then begin
      if !i + 1 < n && s.[!i + 1] = '_' then i := !i + 2
      else begin
        Buffer.add_char b (Char.chr (int_of_string ("0x" ^ String.sub s (!i + 1) 2)));
        i := !i + 3
      end
    end else begin Buffer.add_char b s.[!i]; incr i end
  done;
  Buffer.contents b

let enc (s : string) : string =
  if s = "" then "%_" else begin
    let b = Buffer.create (String.length s) in
    String.iter (fun c ->
      let k = Char.code c in
      if k > 0x20 && k < 0x7f && not (String.contains ",/;=~|%-[]!>&" c) then Buffer.add_char b c
      else Buffer.add_string b (Printf.sprintf "%%%02X" k)) s;
    Buffer.contents b
  end

let st (s : string) : str = bytes_of_string s
let ts (s : str) : string = string_of_bytes s
let sdec s = st (dec s)

let lst s = if s = "-" then [] else List.map dec (String.split_on_char '/' s)

(* ---- spec ---- *)
type tcfg = { acts : string; ign : char; exact : bool; pos : string list; skip : string list; threads : string list }

(* values of an argument list according to the container kind letter *)
let values_of rk vals =
  match rk with
  | 'i' | 'r' | 'g' | 'u' -> List.map (fun v -> VInt (z_of_string v)) vals
  | 'd' -> List.map (fun v -> VDbg (z_of_string v)) vals
  | 'e' -> List.map (fun v -> VBlank (z_of_string v)) vals
  | _ -> List.map (fun v -> VStr (st v)) vals

(* opts token: - | n | t | f, optionally followed by a sample count *)
let opts_of (s : string) =
  if s = "-" then None else
    (* an `e` after the letter says `threads = []` (present but empty): the model does not model thread counts,
       an absent or empty list means one run per case on one thread *)
    let s = if String.length s > 1 && s.[1] = 'e' then String.make 1 s.[0] ^ String.sub s 2 (String.length s - 2) else s in
    let sc = if String.length s > 1 then Some (n_of_string (String.sub s 1 (String.length s - 1))) else None in
    Some { o_ignore = (match s.[0] with 't' -> Some true | 'f' -> Some false | _ -> None); o_sample_count = sc }

let opts_letter = function
  | None -> "-"
  | Some o ->
    (match o.o_ignore with None -> "n" | Some true -> "t" | Some false -> "f")
    ^ (match o.o_sample_count with None -> "" | Some n -> string_of_n n)

let meta_of f =
  { m_display = sdec (List.nth f 4); m_raw = sdec (List.nth f 3); m_modpath = sdec (List.nth f 2);
    m_line = n_of_string (List.nth f 5); m_col = n_of_string (List.nth f 6); m_opts = opts_of (List.nth f 7) }

let runner_of owner rk vals =
  match rk.[0] with
  | 'p' -> RPlain
  | k -> RArgs (owner, values_of k (lst vals))

let split_first c s =
  match String.index_opt s c with
  | Some i -> (String.sub s 0 i, String.sub s (i + 1) (String.length s - i - 1))
  | None -> (s, "")


(* ---- abstract programs (items P / F / M / N / E): parsed into Model.pitem and expanded by the model ---- *)
let parse_program (toks : string list) : string * pitem list =
  let crate = ref "" in
  let rec items (toks : string list) (acc : pitem list) : pitem list * string list =
    match toks with
    | [] -> (List.rev acc, [])
    | tok :: rest ->
      let f = String.split_on_char ',' tok in
      (match List.hd f with
       | "E" -> (List.rev acc, rest)
       | "F" ->
         let nth = List.nth f in
         let rk = (nth 6).[0] in
         let types = match nth 8 with
           | "-" -> None | "@" -> Some []
           | t -> Some (List.map (fun x -> sdec (snd (split_first ':' x))) (String.split_on_char '/' t)) in
         let consts = match nth 9 with
           | "-" -> None
           | "L" -> Some (CLit (List.map st (lst (nth 11))))
           | _ -> Some (CExt (List.map st (lst (nth 11)))) in
         let b = { bd_raw = sdec (nth 1); bd_name = (if nth 2 = "-" then None else Some (sdec (nth 2)));
                   bd_line = n_of_string (nth 3); bd_col = n_of_string (nth 4); bd_opts = opts_of (nth 5);
                   bd_args = (if rk = 'p' then None else Some (values_of rk (lst (nth 7))));
                   bd_types = types; bd_consts = consts } in
         items rest (PBench b :: acc)
       | "M" ->
         let nth = List.nth f in
         let g = if nth 2 = "-" then None else
             Some { gd_name = (if nth 3 = "-" then None else Some (sdec (nth 3)));
                    gd_line = n_of_string (nth 4); gd_col = n_of_string (nth 5); gd_opts = opts_of (nth 6) } in
         let (sub, rest') = items rest [] in
         items rest' (PMod (sdec (nth 1), g, sub) :: acc)
       | "N" ->
         let (sub, rest') = items rest [] in
         items rest' (PFn sub :: acc)
       | "P" -> crate := dec (List.nth f 1); items rest acc
       | _ -> items rest acc) in
  let (its, _) = items toks [] in
  (!crate, its)

let parse_case (line : string) =
  let cfg = ref None and benches = ref [] and groups = ref [] in
  List.iter (fun item ->
    if item <> "" then begin
      let f = String.split_on_char ',' item in
      match List.hd f with
      | "C" ->
        cfg := Some { acts = List.nth f 1; ign = (List.nth f 2).[0]; exact = List.nth f 3 = "e";
                      pos = lst (List.nth f 4); skip = lst (List.nth f 5);
                      threads = (match List.nth_opt f 7 with Some t -> lst t | None -> []) }
      | "B" ->
        let id = n_of_string (List.nth f 1) in
        benches := { b_id = id; b_meta = meta_of f; b_runner = runner_of id (List.nth f 8) (List.nth f 9) } :: !benches
      | "G" ->
        let id = n_of_string (List.nth f 1) in
        let run = runner_of id (List.nth f 8) (List.nth f 9) in
        let generic = match List.nth f 10 with
          | "-" -> None
          | "@" -> Some []
          | rows -> Some (List.map (fun row ->
              if row = "." then [] else
                List.map (fun e ->
                  match String.split_on_char '~' e with
                  | [gid; ty; k] ->
                    let ty = if ty = "-" then None else Some (sdec (snd (split_first ':' ty))) in
                    let k = if k = "-" then None else Some (sdec (String.sub k 1 (String.length k - 1))) in
                    let kind = match ty, k with
                      | Some t, None -> GType t
                      | t, Some c -> GConst (t, c)
                      | None, None -> failwith "generic entry without type and const" in
                    { ge_id = n_of_string gid; ge_runner = run; ge_kind = kind }
                  | _ -> failwith "generic entry") (String.split_on_char ';' row))
              (String.split_on_char '/' rows)) in
        groups := { g_id = id; g_meta = meta_of f; g_generic = generic } :: !groups
      | "X" | "P" | "F" | "M" | "N" | "E" | "O" | "V" -> ()
      | x -> failwith ("bad item " ^ x)
    end) (String.split_on_char ' ' line);
  let toks = String.split_on_char ' ' line in
  let (benches, groups) =
    if List.exists (fun t -> String.length t > 1 && t.[0] = 'P' && t.[1] = ',') toks then begin
      let (crate, its) = parse_program toks in
      let edition2015 = List.exists (fun t -> String.length t > 2 && String.sub t 0 2 = "P," &&
                                               (match String.split_on_char ',' t with [_; _; "2015"] -> true | _ -> false)) toks in
      match expand (if edition2015 then spell_2015 else (fun r -> r)) (st crate) its with
      | Ok (b, g) -> (b, g)
      | Panic p -> failwith ("expand: compile-time panic " ^ string_of_panic p)
    end else (List.rev !benches, List.rev !groups) in
  match !cfg with
  | Some c -> (c, benches, groups)
  | None -> failwith "no cfg"

let mk_cfg (c : tcfg) (pos : string list) (exact : bool) : cfg =
  { c_run_ignored = (match c.ign with 'o' -> RIOnly | 'y' -> RIYes | _ -> RINo);
    c_opts = { o_ignore = None; o_sample_count = None };
    c_filter = is_match exact (List.map st pos) (List.map st c.skip);
    c_threads = List.map n_of_string c.threads }

let ident (t : tree list) = t

(* ---- canonical output ---- *)
let render_val = function
  | VInt z -> "i" ^ string_of_z z
  | VStr s -> "s" ^ enc (ts s)
  | VDbg z -> "d" ^ string_of_z z
  | VBlank z -> "e" ^ string_of_z z

let status = function
  | None -> ""
  | Some p -> "!panic"

let canon_tree ((acts, p) : trace) (pair_calls : bool) (made : string) : string =
  (* pair every painted leaf with the invocation that follows it *)
  let items = ref [] in
  let rec go = function
    | [] -> ()
    | AStartParent (_, path, _) :: tl -> items := ("P:" ^ enc (ts path)) :: !items; go tl
    | AIgnoreLeaf (_, path, _) :: tl -> items := ("I:" ^ enc (ts path)) :: !items; go tl
    | AStartLeaf (_, path, _) :: tl ->
      if pair_calls then begin
        let call = match tl with
          | ANewBencher _ :: (AInvoke (id, _, arg) | AInvokeMore (id, _, arg, _)) :: _ ->
            "C" ^ string_of_n id ^ (match arg with None -> "" | Some (_, v) -> "=" ^ render_val v)
          | _ -> "NOCALL" in
        items := ("X:" ^ enc (ts path) ^ "=" ^ call) :: !items
      end else items := ("X:" ^ enc (ts path)) :: !items;
      go tl
    | _ :: tl -> go tl in
  go acts;
  String.concat ";" (List.sort compare !items) ^ "!" ^ (if pair_calls then made else "") ^ status p

let canon_terse ((acts, p) : trace) : string =
  String.concat ";" (List.map (fun l -> enc (ts l)) (lines acts)) ^ "!" ^ status p

(* [real]: in generated crates an empty argument list is written as the literal `[]` (the macro's special
   case), which cannot carry the evaluation counter: those owners are not reported by the crate. *)
let made_of ?(real = false) benches groups =
  let es = all_entries benches groups in
  let empty_owner o = List.exists (fun e -> match entry_runner e with RArgs (o', []) -> o' = o | _ -> false) es in
  let owners = List.sort compare (List.map int_of_n (List.filter (fun o -> not (real && empty_owner o)) (args_evaluations es))) in
  String.concat ";" (List.map (fun o -> Printf.sprintf "M%dx1" o) owners)

let strip_suffix suf s =
  let n = String.length s and m = String.length suf in
  if n >= m && String.sub s (n - m) m = suf then Some (String.sub s 0 (n - m)) else None

let is_real (line : string) =
  List.exists (fun t -> String.length t > 1 && t.[0] = 'X' && t.[1] = ',') (String.split_on_char ' ' line)

let meta_s (m : meta) =
  String.concat "," [enc (ts m.m_modpath); enc (ts m.m_raw); enc (ts m.m_display); string_of_n m.m_line; string_of_n m.m_col;
                     opts_letter m.m_opts]
let runner_k = function RPlain -> "p" | RArgs _ -> "a"
let dump_of benches groups =
  let bl = List.map (fun b -> "B," ^ meta_s b.b_meta ^ "," ^ runner_k b.b_runner) benches in
  let gl = List.map (fun g ->
      let shape = match g.g_generic with
        | None -> "-"
        | Some rows -> "@" ^ String.concat "+" (List.map (fun row ->
            String.concat "." (List.map (fun e ->
                (match e.ge_kind with GType _ -> "t" | GConst (Some _, _) -> "tc" | GConst (None, _) -> "c") ^ runner_k e.ge_runner) row)) rows) in
      "G," ^ meta_s g.g_meta ^ "," ^ shape) groups in
  String.concat ";" (List.sort compare (bl @ gl))

let model_run (line : string) : string =
  let (c, benches, groups) = parse_case line in
  let real = is_real line in
  let made = made_of ~real benches groups in
  let run cfg a = run_action cfg ident a benches groups in
  let cfg0 = mk_cfg c c.pos c.exact in
  let sections = ref [] in
  String.iter (fun act ->
    let sec = match act with
      | 'T' ->
        if real then begin
          (* constructor order is not fixed: the lines are compared as a multiset *)
          let (acts, p) = run cfg0 ListTerse in
          String.concat ";" (List.sort compare (List.map (fun l -> enc (ts l)) (lines acts))) ^ "!" ^ status p
        end else canon_terse (run cfg0 ListTerse)
      | 'D' -> dump_of benches groups
      | 'O' | 'V' ->
        (* the options as written / as they resolve, as the generator recorded them in the case *)
        (match List.find_opt (fun t -> String.length t > 1 && t.[0] = act && t.[1] = ',') (String.split_on_char ' ' line) with
         | Some t -> String.sub t 2 (String.length t - 2)
         | None -> "no-options-item")
      | 'K' -> ""   (* marker: the case has a module / generic function name clash *)
      | 'm' | 'p' -> canon_tree (run cfg0 Test) true made
      | 'x' ->
        (* three concurrent Divan::default().test_benches(): no filters, no ignore flag; every run executes every
           selected case once, every argument list is evaluated once for the whole process *)
        let cfgd = { c_run_ignored = RINo; c_opts = { o_ignore = None; o_sample_count = None };
                     c_filter = (fun _ -> true); c_threads = [] } in
        let one = List.map (fun ((id, _), arg) -> "C" ^ string_of_n id ^ (match arg with None -> "" | Some (_, v) -> "=" ^ render_val v))
            (executed (fst (run cfgd Test))) in
        String.concat ";" (List.sort compare (one @ one @ one)) ^ "!" ^ made
      | 'n' -> canon_terse (run cfg0 ListTerse)
      | 'a' | 'b' | 'c' | 'd' | 'f' | 'g' | 'h' | 'j' | 'k' ->
        (* (list, test, bench, terse accepted) as the harness passes them for this letter *)
        let (l, t, b, terse) = match act with
          | 'a' | 'b' -> (true, false, true, false)
          | 'c' | 'd' -> (true, false, true, true)
          | 'f' | 'g' -> (false, true, true, false)
          | 'h' -> (false, false, false, false)
          | 'j' -> (true, true, false, false)
          | _ -> (true, false, true, false) in
        (match action_of_flags l t b terse with
         | None -> "!!exit2"
         | Some ListTerse -> canon_terse (run cfg0 ListTerse)
         | Some List -> canon_tree (run cfg0 List) false made
         | Some a -> canon_tree (run cfg0 a) true made)
      | 'R' | 'Q' -> canon_tree (run cfg0 Test) true made
      | 'L' | 'A' -> canon_tree (run cfg0 List) false made
      | 'E' ->
        let ls = List.map ts (lines (fst (run cfg0 ListTerse))) in
        let ls = if real then List.sort compare ls else ls in
        let seen = Hashtbl.create 16 in
        let parts = ref [] in
        List.iter (fun l ->
          match strip_suffix ": benchmark" l with
          | None -> parts := ("BADLINE " ^ enc l) :: !parts
          | Some path ->
            let dup = Hashtbl.mem seen path in
            Hashtbl.replace seen path ();
            if not dup && Hashtbl.length seen <= 6 then begin
              let cfg1 = mk_cfg c [path] true in
              parts := (enc path ^ ">" ^ canon_terse (run cfg1 ListTerse) ^ ">" ^ canon_tree (run cfg1 Test) true made) :: !parts
            end) ls;
        String.concat "&" (List.rev !parts)
      | x -> "unknown-act-" ^ String.make 1 x in
    sections := (String.make 1 act ^ "[" ^ sec ^ "]") :: !sections) c.acts;
  String.concat " " (List.rev !sections)

(* ---- reading an implementation line back ---- *)
(* "T[...] R[...]" -> assoc list act -> body *)
let sections_of (impl : string) : (char * string) list =
  let res = ref [] in
  let n = String.length impl in
  let i = ref 0 in
  (try
     while !i < n do
       let act = impl.[!i] in
       if !i + 1 >= n || impl.[!i + 1] <> '[' then raise Exit;
       let j = String.index_from impl (!i + 2) ']' in
       res := (act, String.sub impl (!i + 2) (j - !i - 2)) :: !res;
       i := j + 2
     done
   with Exit | Not_found -> res := ('?', impl) :: !res);
  List.rev !res

let split_bang s = String.split_on_char '!' s
let items_of s = if s = "" then [] else String.split_on_char ';' s

(* terse section -> (lines, log events, extra status fields) *)
let read_terse body =
  match split_bang body with
  | ls :: log :: rest -> (List.map dec (items_of ls), items_of log, rest)
  | _ -> ([], [], ["malformed"])

(* tree section -> (items, after-bang field, extra status) *)
let read_tree body =
  match split_bang body with
  | its :: second :: rest -> (items_of its, second, rest)
  | _ -> ([], "", ["malformed"])

let executed_paths items =
  List.filter_map (fun it ->
    if String.length it > 2 && it.[0] = 'X' then
      let (p, _) = split_first '=' (String.sub it 2 (String.length it - 2)) in Some (dec p)
    else None) items

let has_mismatch items = List.exists (fun it -> String.length it >= 8 && String.sub it 0 8 = "MISMATCH") items

let parse_val (s : string) : value option =
  if s = "" then None else
    let rest = String.sub s 1 (String.length s - 1) in
    match s.[0] with
    | 'i' -> Some (VInt (z_of_string rest))
    | 'd' -> Some (VDbg (z_of_string rest))
    | 'e' -> Some (VBlank (z_of_string rest))
    | 's' -> Some (VStr (sdec rest))
    | _ -> None

(* ---- C14: the boolean specification on the implementation's output ---- *)
let c14_sb (line : string) : string =
  let (case, impl) = split_sb line in
  let (c, benches, groups) = parse_case case in
  let secs = sections_of impl in
  let fail = ref [] in
  let bad s = fail := s :: !fail in
  let terse = ref None and ran = ref None and terse_more = ref [] and ran_more = ref [] in
  List.iter (fun (act, body) ->
    match act with
    | 'j' ->
      (* --list --test is rejected by the command-line parser: nothing may run *)
      (match split_bang body with
       | _ :: log :: _ -> if items_of log <> [] then bad "rejected-command-line-invoked-something"
       | _ -> ())
    | 'c' | 'd' | 'n' ->
      let (ls, log, rest) = read_terse body in
      if rest <> [] then bad ("terse-status:" ^ String.concat "," rest);
      if not (c14_quiet_sb (n_of_small (List.length log))) then bad "terse-listing-with-bench-flag-invoked-something";
      terse_more := ls :: !terse_more
    | 'T' ->
      let (ls, log, rest) = read_terse body in
      if rest <> [] then bad ("terse-status:" ^ String.concat "," rest);
      if not (c14_quiet_sb (n_of_small (List.length log))) then bad "terse-listing-invoked-something";
      if is_real case then begin
        let cfg0 = mk_cfg c c.pos c.exact in
        let exp_lines = List.sort compare (List.map (fun ((_, path), _) -> ts path ^ ": benchmark") (flat_exec cfg0 benches groups)) in
        if List.sort compare ls <> exp_lines then bad "terse-listing-differs-from-the-program"
      end;
      terse := Some ls
    | 'R' | 'Q' | 'f' | 'g' | 'h' | 'm' ->
      let (items, _, rest) = read_tree body in
      if rest <> [] then bad ("run-status:" ^ String.concat "," rest);
      if has_mismatch items then bad "run-leaves-and-calls-differ";
      (* the case a run executes under a listed path is the case that path names: the row received the value its label renders *)
      List.iter (fun it ->
          if String.length it > 2 && it.[0] = 'X' then
            match String.split_on_char '=' (String.sub it 2 (String.length it - 2)) with
            | [p; _; v] ->
              (match parse_val v with
               | Some value -> if not (c17_label_sb (sdec p) value) then bad ("executed-case-is-not-the-listed-one:" ^ it)
               | None -> bad ("unreadable-value:" ^ it))
            | _ -> ()) items;
      (* generated crates (no name clash by construction): what the run executes is what the program says *)
      if is_real case then begin
        let cfg0 = mk_cfg c c.pos c.exact in
        let expected = List.map (fun ((id, path), arg) ->
            enc (ts path) ^ "=C" ^ string_of_n id ^ (match arg with None -> "" | Some (_, v) -> "=" ^ render_val v))
            (flat_exec cfg0 benches groups) in
        let got = List.filter_map (fun it ->
            if String.length it > 2 && it.[0] = 'X' then Some (String.sub it 2 (String.length it - 2)) else None) items in
        if not (c12_flat_sb (List.map st expected) (List.map st got)) then
          bad ("run-differs-from-the-program missing=" ^ String.concat "+" (List.filter (fun x -> not (List.mem x got)) expected)
               ^ " unexpected=" ^ String.concat "+" (List.filter (fun x -> not (List.mem x expected)) got))
      end;
      if act = 'R' then ran := Some (executed_paths items)
      else if act = 'm' then ran_more := executed_paths items :: !ran_more
    | 'L' | 'A' | 'a' | 'b' | 'k' ->
      let (_, log, rest) = read_tree body in
      if rest <> [] then bad ("list-status:" ^ String.concat "," rest);
      if not (c14_quiet_sb (n_of_small (List.length (items_of log)))) then
        bad (if act = 'A' then "list_benches-invoked-something" else if act = 'L' then "list-invoked-something"
             else "list-with-bench-flag-invoked-something")
    | 'E' ->
      (* guard of the round trip: display paths of all cases are unique *)
      let all = List.map (fun ((p, _), _) -> ts p) (cases [] (build_tree benches groups)) in
      let uniq = List.length (List.sort_uniq compare all) = List.length all in
      if uniq && body <> "" then
        List.iter (fun part ->
          match String.split_on_char '>' part with
          | [p; t; r] ->
            let (ls, log, rest) = read_terse t in
            let (items, _, rest2) = read_tree r in
            if rest <> [] || rest2 <> [] then bad "roundtrip-status";
            if log <> [] then bad "roundtrip-listing-invoked-something";
            if not (c14_roundtrip_sb (sdec p) (List.map st ls) (List.map st (executed_paths items))) then
              bad ("exact-filter-does-not-select-exactly:" ^ p)
          | _ -> bad ("roundtrip-malformed:" ^ part)) (String.split_on_char '&' body)
    | _ -> bad "unreadable-output") secs;
  (match !terse, !ran with
   | Some t, Some r ->
     if not (c14_terse_sb (List.map st t) (List.map st r)) then bad "terse-listing-differs-from-what-the-run-executes"
   | _ -> ());
  (match !ran with
   | Some r ->
     List.iter (fun t -> if not (c14_terse_sb (List.map st t) (List.map st r)) then
                   bad "terse-listing-variant-differs-from-what-the-run-executes") !terse_more
   | None -> ());
  (match !terse with
   | Some t ->
     List.iter (fun r -> if not (c14_terse_sb (List.map st t) (List.map st r)) then
                   bad "run-with-empty-threads-list-differs-from-the-terse-listing") !ran_more
   | None -> ());
  if !fail = [] then "true" else "false " ^ String.concat " " (List.rev !fail)

(* ---- C12: what ran against the flat semantics (every entry at its module path, with the names and
   options of the bench_group modules above it) ---- *)
let c12_sb (line : string) : string =
  let (case, impl) = split_sb line in
  let (c, benches, groups) = parse_case case in
  let secs = sections_of impl in
  let cfg0 = mk_cfg c c.pos c.exact in
  let fail = ref [] in
  let bad s = fail := s :: !fail in
  let expected = List.map (fun ((id, path), arg) ->
      enc (ts path) ^ "=C" ^ string_of_n id ^ (match arg with None -> "" | Some (_, v) -> "=" ^ render_val v))
      (flat_exec cfg0 benches groups) in
  List.iter (fun (act, body) ->
    match act with
    | 'R' | 'Q' ->
      let (items, _, rest) = read_tree body in
      if rest <> [] then bad ("run-status:" ^ String.concat "," rest);
      if has_mismatch items then bad "run-leaves-and-calls-differ";
      let got = List.filter_map (fun it ->
          if String.length it > 2 && it.[0] = 'X' then Some (String.sub it 2 (String.length it - 2)) else None) items in
      if not (c12_flat_sb (List.map st expected) (List.map st got)) then begin
        let missing = List.filter (fun x -> not (List.mem x got)) expected
        and extra = List.filter (fun x -> not (List.mem x expected)) got in
        bad ("registered-benchmarks-differ-from-the-program missing=" ^ String.concat "+" missing ^ " unexpected=" ^ String.concat "+" extra)
      end
    | 'T' ->
      let (ls, log, rest) = read_terse body in
      if rest <> [] then bad ("terse-status:" ^ String.concat "," rest);
      let exp_lines = List.sort compare (List.map (fun ((_, path), _) -> ts path ^ ": benchmark") (flat_exec cfg0 benches groups)) in
      if List.sort compare ls <> exp_lines then bad "terse-listing-differs-from-the-program"
    | 'L' | 'A' ->
      (* the listed leaves (ignored or not) are the registered entries the filter keeps, under their display paths *)
      let (items, _, rest) = read_tree body in
      if rest <> [] then bad ("list-status:" ^ String.concat "," rest);
      let got = List.sort compare (List.filter (fun it -> String.length it > 2 && (it.[0] = 'X' || it.[0] = 'I')) items) in
      let exp = List.sort compare (List.map (fun (k, path) -> (if int_of_n k = 1 then "I:" else "X:") ^ enc (ts path))
                                     (flat_list cfg0 benches groups)) in
      if got <> exp then begin
        let missing = List.filter (fun x -> not (List.mem x got)) exp and extra = List.filter (fun x -> not (List.mem x exp)) got in
        bad ("listed-benchmarks-differ-from-the-program missing=" ^ String.concat "+" missing ^ " unexpected=" ^ String.concat "+" extra)
      end
    | 'V' ->
      (* every bench_group contributes its options: counters resolve per kind, benchmark over inner group over outer group *)
      let expected = match List.find_opt (fun t -> String.length t > 1 && t.[0] = 'V' && t.[1] = ',') (String.split_on_char ' ' case) with
        | Some t -> items_of (dec (String.sub t 2 (String.length t - 2))) | None -> [] in
      let got = items_of (dec body) in
      if got <> expected then
        bad ("resolved-counters-differ-from-the-written-options missing=" ^ String.concat "+" (List.filter (fun x -> not (List.mem x got)) expected)
             ^ " unexpected=" ^ String.concat "+" (List.filter (fun x -> not (List.mem x expected)) got))
    | 'O' ->
      (* "options as written": what the registry holds for every entry is what the program says *)
      let expected = match List.find_opt (fun t -> String.length t > 1 && t.[0] = 'O' && t.[1] = ',') (String.split_on_char ' ' case) with
        | Some t -> items_of (dec (String.sub t 2 (String.length t - 2))) | None -> [] in
      let got = items_of (dec body) in
      if got <> expected then
        bad ("registered-options-differ-from-the-written-ones missing=" ^ String.concat "+" (List.filter (fun x -> not (List.mem x got)) expected)
             ^ " unexpected=" ^ String.concat "+" (List.filter (fun x -> not (List.mem x expected)) got))
    | 'D' ->
      (* the registry dump (module path, names, location, options present, shape) is what the macro model expands the program to *)
      if is_real case && body <> dump_of benches groups then bad "registry-dump-differs-from-the-program"
    | 'K' | 'E' -> ()
    | _ -> bad "unreadable-output") secs;
  if !fail = [] then "true" else "false " ^ String.concat " " (List.rev !fail)

(* ---- C17: every executed row received the value its label renders; the executed rows are the selected
   ones; every argument list was evaluated once ---- *)
let c17_sb (line : string) : string =
  let (case, impl) = split_sb line in
  let (c, benches, groups) = parse_case case in
  let secs = sections_of impl in
  let cfg0 = mk_cfg c c.pos c.exact in
  let fail = ref [] in
  let bad s = if not (List.mem s !fail) then fail := s :: !fail in
  (* with two or more thread counts every case is a parent labelled like the case with one leaf "t=N" per count *)
  let branches = if List.length c.threads > 1 then List.map (fun t -> "::t=" ^ t) c.threads else [""] in
  let strip_thread p =
    if List.length c.threads > 1 then
      (match List.find_opt (fun suf -> strip_suffix suf p <> None) (List.filter (fun b -> b <> "") branches) with
       | Some suf -> (match strip_suffix suf p with Some q -> q | None -> p)
       | None -> p)
    else p in
  let expected = List.concat_map (fun ((id, path), arg) ->
      List.map (fun b -> enc (ts path ^ b) ^ "=C" ^ string_of_n id ^ (match arg with None -> "" | Some (_, v) -> "=" ^ render_val v)) branches)
      (flat_exec cfg0 benches groups) in
  List.iter (fun (act, body) ->
    match act with
    | 'R' | 'Q' | 'p' ->
      let (items, made, rest) = read_tree body in
      if rest <> [] then bad ("run-status:" ^ String.concat "," rest);
      if has_mismatch items then bad "run-leaves-and-calls-differ";
      let got = List.filter_map (fun it ->
          if String.length it > 2 && it.[0] = 'X' then Some (String.sub it 2 (String.length it - 2)) else None) items in
      List.iter (fun it ->
          match String.split_on_char '=' it with
          | [p; _; v] ->
            (match parse_val v with
             | Some value -> if not (c17_label_sb (st (strip_thread (dec p))) value) then bad ("row-label-is-not-the-received-value:" ^ it)
             | None -> bad ("unreadable-value:" ^ it))
          | _ -> ()) got;
      (* type labels: for every executed instantiation of a generic function, the part of the row's path between
         the function's display path and the const / argument labels is the label of the type; it must name the
         type (label and type_name agree once `ident::` qualifiers are deleted), and within one function two
         instantiations may share a label only if their type names agree up to qualifiers *)
      let fm = find_module_group groups in
      let per_group = Hashtbl.create 8 in
      List.iter (fun it ->
          match String.split_on_char '=' it with
          | p :: cid :: rest when String.length cid > 1 ->
            let id = n_of_string (String.sub cid 1 (String.length cid - 1)) in
            (match List.find_opt (fun e -> match e with AGeneric (_, ge) -> ge.ge_id = id | _ -> false) (all_entries benches groups) with
             | Some (AGeneric (g, ge)) ->
               let ty = (match ge.ge_kind with GType t -> Some (t, "") | GConst (Some t, c0) -> Some (t, "::" ^ ts c0) | GConst (None, _) -> None) in
               (match ty with
                | Some (raw, ctail) ->
                  let gpath = ts (chain_path (List.append (module_chain fm [] (module_components g.g_meta)) [((g.g_meta).m_raw, Some g)])) in
                  let atail = (match rest with [v] -> (match parse_val v with Some value -> "::" ^ ts (value_to_string value) | None -> "") | _ -> "") in
                  let path = strip_thread (dec p) in
                  let pre = gpath ^ "::" and tail = ctail ^ atail in
                  let lp = String.length path and lpre = String.length pre and lt = String.length tail in
                  if lp >= lpre + lt && String.sub path 0 lpre = pre && String.sub path (lp - lt) lt = tail then begin
                    let label = String.sub path lpre (lp - lpre - lt) in
                    if not (c17_type_label_sb raw (st label)) then
                      bad ("type-label-does-not-name-the-type:label=" ^ enc label ^ ":type=" ^ enc (ts raw));
                    let cur = try Hashtbl.find per_group g.g_id with Not_found -> [] in
                    if not (List.mem (raw, st label) cur) then Hashtbl.replace per_group g.g_id ((raw, st label) :: cur)
                  end
                | None -> ())
             | _ -> ())
          | _ -> ()) got;
      Hashtbl.iter (fun _ pairs -> if not (c17_types_distinct_sb pairs) then
                       bad ("different-types-of-one-benchmark-share-a-label:" ^
                            String.concat "+" (List.map (fun (r, l) -> enc (ts r) ^ "~" ^ enc (ts l)) pairs))) per_group;
      if not (c12_flat_sb (List.map st expected) (List.map st got)) then begin
        let missing = List.filter (fun x -> not (List.mem x got)) expected
        and extra = List.filter (fun x -> not (List.mem x expected)) got in
        bad ("executed-rows-are-not-the-selected-ones missing=" ^ String.concat "+" missing ^ " unexpected=" ^ String.concat "+" extra)
      end;
      let counts = List.filter_map (fun m ->
          match String.index_opt m 'x' with
          | Some i -> Some (n_of_string (String.sub m (i + 1) (String.length m - i - 1)))
          | None -> None) (items_of made) in
      if not (c17_once_sb counts) then bad ("argument-list-evaluated-more-than-once:" ^ made)
    | 'T' ->
      (* listed x filtered: the terse listing prints exactly the selected rows, one line each *)
      let (ls, log, rest) = read_terse body in
      if rest <> [] then bad ("terse-status:" ^ String.concat "," rest);
      if log <> [] then bad "terse-listing-invoked-something";
      let exp_lines = List.sort compare (List.map (fun ((_, path), _) -> ts path ^ ": benchmark") (flat_exec cfg0 benches groups)) in
      if List.sort compare ls <> exp_lines then
        bad ("listed-rows-are-not-the-selected-ones unexpected=" ^ String.concat "+" (List.map enc (List.filter (fun x -> not (List.mem x exp_lines)) ls))
             ^ " missing=" ^ String.concat "+" (List.map enc (List.filter (fun x -> not (List.mem x ls)) exp_lines)))
    | 'x' ->
      (* concurrent runs: each of the three runs calls every selected case once, and every argument list is
         evaluated exactly once for the whole process *)
      (match split_bang body with
       | calls :: made :: rest ->
         if rest <> [] then bad ("concurrent-runs-status:" ^ String.concat "," rest);
         let cfgd = { c_run_ignored = RINo; c_opts = { o_ignore = None; o_sample_count = None };
                      c_filter = (fun _ -> true); c_threads = [] } in
         let one = List.map (fun ((id, _), arg) -> "C" ^ string_of_n id ^ (match arg with None -> "" | Some (_, v) -> "=" ^ render_val v))
             (flat_exec cfgd benches groups) in
         if not (c12_flat_sb (List.map st (one @ one @ one)) (List.map st (items_of calls))) then
           bad "concurrent-runs-do-not-each-call-every-case-once";
         let counts = List.filter_map (fun m ->
             match String.index_opt m 'x' with
             | Some i -> Some (n_of_string (String.sub m (i + 1) (String.length m - i - 1)))
             | None -> None) (items_of made) in
         if not (c17_once_sb counts) then bad ("argument-list-evaluated-more-than-once-under-concurrent-runs:" ^ made)
       | _ -> bad "concurrent-runs-unreadable")
    | 'D' | 'L' | 'A' | 'K' | 'E' -> ()
    | _ -> bad "unreadable-output") secs;
  if !fail = [] then "true" else "false " ^ String.concat " " (List.rev !fail)

let dispatch mode line =
  match mode with
  | "c14" | "c12" | "c17" | "run" -> model_run line
  | "push" -> "ok"   (* Model/ListPush.v: every interleaving of overlapping pushes links each node exactly once *)
  | "push.sb" -> let (_, impl) = split_sb line in if impl = "ok" then "true" else "false entry-list-lost-or-duplicated-nodes:" ^ impl
  | "c14.sb" -> c14_sb line
  | "c12.sb" -> c12_sb line
  | "c17.sb" -> c17_sb line
  | _ -> failwith ("unknown mode " ^ mode)

let () = main dispatch
