(* ---- C06 / C07: exhaustive exploration of the pool model for a script ---- *)

let pool_bfs line =
  let scr = List.map (fun t -> nat_of_int (int_of_string t)) (List.filter (fun t -> t <> "") (toks line)) in
  let s0 = PoolM.init scr in
  let seen = Hashtbl.create 100000 in
  let q = Queue.create () in
  Hashtbl.replace seen s0 (); Queue.add s0 q;
  let trans = ref 0 and fails = ref [] and finals = ref 0 in
  let fail m = if List.length !fails < 3 then fails := m :: !fails in
  let lex_lt s' s =
    let o' = int_of_nat (PoolM.outer_measure s') and o = int_of_nat (PoolM.outer_measure s) in
    o' < o || (o' = o && int_of_nat (PoolM.inner_measure s') < int_of_nat (PoolM.inner_measure s)) in
  while not (Queue.is_empty q) do
    let s = Queue.pop q in
    if not (PoolM.inv_all s) then fail "inv_all";
    let en = PoolM.enabled_labels s in
    if PoolM.final s then begin
      incr finals;
      List.iteri (fun i n ->
        if not (PoolM.once_per_index s (nat_of_int (i + 1)) n) then fail "once_per_index";
        if not (PoolM.published s (nat_of_int (i + 1)) n) then fail "published") scr
    end else if en = [] then fail "deadlock";
    let labels = PoolM.ESpurious :: List.concat_map (fun l ->
      match l with
      | PoolM.ERun0 _ -> [PoolM.ERun0 false; PoolM.ERun0 true]
      | PoolM.EWRun (k, _) -> [PoolM.EWRun (k, false); PoolM.EWRun (k, true)]
      | l -> [l]) (PoolM.candidate_labels s) in
    List.iter (fun l ->
      match PoolM.step s l with
      | Some s' ->
        incr trans;
        if l <> PoolM.ESpurious && not (lex_lt s' s) then fail "measure";
        if not (Hashtbl.mem seen s') then (Hashtbl.replace seen s' (); Queue.add s' q)
      | None -> ()) labels
  done;
  Printf.sprintf "states %d transitions %d finals %d %s" (Hashtbl.length seen) !trans !finals
    (if !fails = [] then "ok" else "FAIL " ^ String.concat "," !fails)


let dispatch mode line =
  match mode with
  | "pool-bfs" -> pool_bfs line
  | _ -> failwith ("unknown mode " ^ mode)

let () = main dispatch
