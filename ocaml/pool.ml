(* ---- C06 / C07: exhaustive exploration of the pool model for a script ---- *)

(* "pool-bfs": case = script, optionally followed by `;` and cfg overrides
   (loop=0 nonzero=0 old=N dec=relaxed load=relaxed) used to test that the
   invariants are violated by the mutants they are meant to catch. *)
let cfg_of_overrides (ovs : string list) : PoolM.cfg =
  List.fold_left (fun (c : PoolM.cfg) ov ->
    match String.split_on_char '=' ov with
    | ["loop"; v] -> { c with PoolM.c_loop = (v = "1") }
    | ["nonzero"; v] -> { c with PoolM.c_nonzero = (v = "1") }
    | ["old"; v] -> { c with PoolM.c_unpark_old = nat_of_int (int_of_string v) }
    | ["dec"; "relaxed"] -> { c with PoolM.c_dec = ORelaxed }
    | ["load"; "relaxed"] -> { c with PoolM.c_load = ORelaxed }
    | [""] -> c
    | _ -> failwith ("bad override " ^ ov)) PoolM.code_cfg ovs

let key (s : PoolM.state) : string = Marshal.to_string s [Marshal.No_sharing]

let pool_bfs line =
  let scr_s, ovs = match String.index_opt line ';' with
    | Some i -> String.sub line 0 i, toks (String.trim (String.sub line (i + 1) (String.length line - i - 1)))
    | None -> line, [] in
  let cfg = cfg_of_overrides ovs in
  let scr = List.map (fun t -> nat_of_int (int_of_string t)) (List.filter (fun t -> t <> "") (toks scr_s)) in
  let s0 = PoolM.init scr in
  let seen : (string, unit) Hashtbl.t = Hashtbl.create 100000 in
  let q = Queue.create () in
  Hashtbl.replace seen (key s0) (); Queue.add s0 q;
  let trans = ref 0 and fails = ref [] and finals = ref 0 in
  let fail m = if not (List.mem m !fails) then fails := m :: !fails in
  let lex_lt s' s =
    let o' = int_of_nat (PoolM.outer_measure s') and o = int_of_nat (PoolM.outer_measure s) in
    o' < o || (o' = o && int_of_nat (PoolM.inner_measure s') < int_of_nat (PoolM.inner_measure s)) in
  let limit = 3_000_000 in
  while not (Queue.is_empty q) && Hashtbl.length seen < limit do
    let s = Queue.pop q in
    if not (PoolM.inv_all cfg s) then
      List.iter (fun i -> fail (Printf.sprintf "inv%d" (int_of_nat i))) (PoolM.inv_failures cfg s);
    let en = PoolM.enabled_labels cfg s in
    if PoolM.final s then begin
      incr finals;
      List.iteri (fun i n ->
        if not (PoolM.once_per_index s (nat_of_int (i + 1)) n) then fail "once_per_index";
        if not (PoolM.published s (nat_of_int (i + 1)) n) then fail "published";
        if not (PoolM.results_indexed s (nat_of_int (i + 1)) n) then fail "results_indexed") scr
    end else if en = [] then fail "deadlock";
    let labels = PoolM.ESpurious :: List.concat_map (fun l ->
      match l with
      | PoolM.ERun0 _ -> [PoolM.ERun0 false; PoolM.ERun0 true]
      | PoolM.EWRun (k, _) -> [PoolM.EWRun (k, false); PoolM.EWRun (k, true)]
      | l -> [l]) (PoolM.candidate_labels s) in
    List.iter (fun l ->
      match PoolM.step cfg s l with
      | Some s' ->
        incr trans;
        if l <> PoolM.ESpurious && not (lex_lt s' s) then fail "measure";
        let k = key s' in
        if not (Hashtbl.mem seen k) then (Hashtbl.replace seen k (); Queue.add s' q)
      | None -> ()) labels
  done;
  Printf.sprintf "states %d transitions %d finals %d %s%s" (Hashtbl.length seen) !trans !finals
    (if !fails = [] then "ok" else "FAIL " ^ String.concat "," (List.sort compare !fails))
    (if Hashtbl.length seen >= limit then " LIMIT" else "")


let dispatch mode line =
  match mode with
  | "pool-bfs" -> pool_bfs line
  | _ -> failwith ("unknown mode " ^ mode)

let () = main dispatch
