(* ---- C06 / C07: exhaustive exploration of the pool model for a script ---- *)

(* "pool-bfs": case = script, optionally followed by `;` and cfg overrides
   (loop=0 nonzero=0 old=N dec=relaxed load=relaxed) used to test that the
   invariants are violated by the mutants they are meant to catch. *)
let cfg_of_overrides (ovs : string list) : PoolM.cfg =
  List.fold_left (fun (c : PoolM.cfg) ov ->
    match String.split_on_char '=' ov with
    | ["loop"; v] -> { c with PoolM.c_loop = (v = "1") }
    | ["nonzero"; v] -> { c with PoolM.c_nonzero = (v = "1") }
    | ["old"; v] -> { c with PoolM.c_unpark_old = nat_of_int (int_of_string v) }
    | ["dec"; "relaxed"] -> { c with PoolM.c_dec = ORelaxed }
    | ["load"; "relaxed"] -> { c with PoolM.c_load = ORelaxed }
    | ["nopub"] | [""] -> c
    | _ -> failwith ("bad override " ^ ov)) PoolM.code_cfg ovs

let key (s : PoolM.state) : string = Marshal.to_string s [Marshal.No_sharing]

let string_of_label (l : PoolM.label) : string =
  let i n = string_of_int (int_of_nat n) in
  match l with
  | PoolM.EBegin n -> "EBegin " ^ i n | PoolM.ESend k -> "ESend " ^ i k
  | PoolM.ERun0 p -> "ERun0 " ^ bool_s p | PoolM.ELoad -> "ELoad" | PoolM.EPark -> "EPark" | PoolM.ESpurious -> "ESpurious"
  | PoolM.EWRun (k, p) -> "EWRun " ^ i k ^ " " ^ bool_s p | PoolM.EWClone k -> "EWClone " ^ i k
  | PoolM.EWDec k -> "EWDec " ^ i k | PoolM.EWUnpark k -> "EWUnpark " ^ i k | PoolM.EDrop -> "EDrop"
  | PoolM.EWExit k -> "EWExit " ^ i k

let pool_bfs line =
  let scr_s, ovs = match String.index_opt line ';' with
    | Some i -> String.sub line 0 i, toks (String.trim (String.sub line (i + 1) (String.length line - i - 1)))
    | None -> line, [] in
  let cfg = cfg_of_overrides ovs in
  let check_pub = not (List.mem "nopub" ovs) in
  let scr = List.map (fun t -> nat_of_int (int_of_string t)) (List.filter (fun t -> t <> "") (toks scr_s)) in
  let s0 = PoolM.init scr in
  (* seen: state key -> (key of the BFS parent, label taken), for witness paths *)
  let seen : (string, string * string) Hashtbl.t = Hashtbl.create 100000 in
  let q = Queue.create () in
  Hashtbl.replace seen (key s0) ("", ""); Queue.add s0 q;
  let trans = ref 0 and fails = ref [] and finals = ref 0 in
  let witness = ref None in
  let path_to k =
    let rec go k acc = match Hashtbl.find_opt seen k with
      | Some (pk, l) when l <> "" -> go pk (l :: acc)
      | _ -> acc in
    String.concat "; " (go k []) in
  let cur_key = ref (key s0) in
  let fail m =
    if !witness = None then witness := Some (m, path_to !cur_key);
    if not (List.mem m !fails) then fails := m :: !fails in
  let lex_lt s' s =
    let o' = int_of_nat (PoolM.outer_measure s') and o = int_of_nat (PoolM.outer_measure s) in
    o' < o || (o' = o && int_of_nat (PoolM.inner_measure s') < int_of_nat (PoolM.inner_measure s)) in
  let limit = 3_000_000 in
  while not (Queue.is_empty q) && Hashtbl.length seen < limit do
    let s = Queue.pop q in
    cur_key := key s;
    if not (PoolM.inv_all cfg s) then
      List.iter (fun i -> fail (Printf.sprintf "inv%d" (int_of_nat i))) (PoolM.inv_failures cfg s);
    let en = PoolM.enabled_labels cfg s in
    if PoolM.final s then begin
      incr finals;
      List.iteri (fun i n ->
        if not (PoolM.once_per_index s (nat_of_int (i + 1)) n) then fail "once_per_index";
        if check_pub && not (PoolM.published s (nat_of_int (i + 1)) n) then fail "published";
        if not (PoolM.results_indexed s (nat_of_int (i + 1)) n) then fail "results_indexed") scr
    end else if en = [] then fail "deadlock";
    let labels = PoolM.ESpurious :: List.concat_map (fun l ->
      match l with
      | PoolM.ERun0 _ -> [PoolM.ERun0 false; PoolM.ERun0 true]
      | PoolM.EWRun (k, _) -> [PoolM.EWRun (k, false); PoolM.EWRun (k, true)]
      | l -> [l]) (PoolM.candidate_labels s) in
    List.iter (fun l ->
      match PoolM.step cfg s l with
      | Some s' ->
        incr trans;
        if l <> PoolM.ESpurious && not (lex_lt s' s) then fail "measure";
        let k = key s' in
        if not (Hashtbl.mem seen k) then (Hashtbl.replace seen k (!cur_key, string_of_label l); Queue.add s' q)
      | None -> ()) labels
  done;
  Printf.sprintf "states %d transitions %d finals %d %s%s" (Hashtbl.length seen) !trans !finals
    (if !fails = [] then "ok" else "FAIL " ^ String.concat "," (List.sort compare !fails))
    ((if Hashtbl.length seen >= limit then " LIMIT" else "")
     ^ (match !witness with Some (m, p) -> " WITNESS " ^ m ^ " after [" ^ p ^ "]" | None -> ""))


(* ---- trace replay (correspondence) and the boolean specification on traces ---- *)

(* case = "script=2,1 panics=1.0,2.1 ... #idx*count"; impl = "ev ev ... [!failure]" *)
let parse_case (case : string) : int list * (int * int) list =
  let scr = ref [] and pan = ref [] in
  List.iter (fun tok ->
    match String.index_opt tok '=' with
    | Some i ->
      let k = String.sub tok 0 i and v = String.sub tok (i + 1) (String.length tok - i - 1) in
      let items = List.filter (fun x -> x <> "") (String.split_on_char ',' v) in
      if k = "script" then scr := List.map int_of_string items
      else if k = "panics" || k = "bombs" then
        (* a bomb (payload whose Drop panics) is a panicking call as far as the slots go *)
        pan := !pan @ List.map (fun x -> match String.split_on_char '.' x with
          | [b; i] -> (int_of_string b, int_of_string i) | _ -> failwith ("bad panics " ^ x)) items
    | None -> ()) (toks case);
  (!scr, !pan)

let split_failure (impl : string) : string list * string option =
  let ts = List.filter (fun t -> t <> "") (toks impl) in
  match List.rev ts with
  | last :: rest when String.length last > 0 && last.[0] = '!' ->
    (List.rev rest, Some (String.sub last 1 (String.length last - 1)))
  | _ -> (ts, None)

let slots_of_string (s : string) : nat option list =
  (* `?` = a value that is not the result of the call of that index *)
  List.map (fun x -> if x = "-" then None else if x = "?" then Some (nat_of_int 9999) else Some (nat_of_int (int_of_string x)))
    (List.filter (fun x -> x <> "") (String.split_on_char ',' s))

let string_of_slots (l : nat option list) : string =
  String.concat "," (List.map (function None -> "-" | Some x -> string_of_int (int_of_nat x)) l)

let fields tok = String.split_on_char '.' tok

(* Replays the global event sequence of one schedule through the extracted [step]:
   every event must be enabled in the model (with equal observed values), the run
   must end in the model's final state with equal result slots. *)
let pool_replay (line : string) : string =
  let case, impl = split_sb line in
  let scr, _ = parse_case case in
  let evs, failure = split_failure impl in
  let cfg = PoolM.code_cfg in
  let s = ref (PoolM.init (List.map nat_of_int scr)) in
  let pending_spawn = ref [] in
  let half_done : (int, unit) Hashtbl.t = Hashtbl.create 8 in
  let rets_seen = ref 0 in
  (* refused thread creation: state before the broadcast began, spawns that succeeded in it *)
  let pre : PoolM.state option ref = ref None in
  let spawned_ok = ref 0 in
  let aborted = ref false in
  let exception Reject of string in
  let step l why = match PoolM.step cfg !s l with
    | Some s' -> s := s'
    | None -> raise (Reject ("not enabled: " ^ why)) in
  let rc () = int_of_nat !s.PoolM.rc in
  let rendezvous c =
    if Hashtbl.mem half_done c then Hashtbl.remove half_done c
    else begin
      if !pending_spawn <> [] then raise (Reject "send before all spawns");
      step (PoolM.ESend (nat_of_int c)) ("send " ^ string_of_int c);
      Hashtbl.replace half_done c ()
    end in
  let idx = ref 0 in
  try
    List.iter (fun tok ->
      incr idx;
      (try
        (match fields tok with
         | ["B"; n] ->
           (match !s.PoolM.cst, !s.PoolM.script with
            | PoolM.CIdle, m :: _ when int_of_nat m = int_of_string n -> ()
            | _ -> raise (Reject "broadcast not expected here"))
         | ["N"; v] ->
           pre := Some !s; spawned_ok := 0; aborted := false;
           let before = List.length !s.PoolM.ws in
           step (PoolM.EBegin (nat_of_int (int_of_string v))) "begin";
           let after = List.length !s.PoolM.ws in
           pending_spawn := List.init (after - before) (fun i -> before + i + 1)
         | ["S"; k] ->
           (match !pending_spawn with
            | k' :: rest when k' = int_of_string k -> pending_spawn := rest; incr spawned_ok
            | _ -> raise (Reject "spawn not expected (only the missing threads are spawned)"))
         | ["F"; _] ->
           (* A thread creation is refused: [spawn]'s `expect` panics under the lock, before any send.  The
              transition system has no such step.  Sequence-level treatment: the aborted broadcast is replaced by
              a successful broadcast on exactly the threads that exist afterwards (same pool state for what
              follows, same broadcast numbering); the aborted broadcast itself is only checked to have handed
              out nothing and to leave n+1 empty slots. *)
           (match !pre, !s.PoolM.cst with
            | Some p, PoolM.CSend (k, _) when int_of_nat k = 1 && !pending_spawn <> [] && not !aborted ->
              (* undo EBegin on the CURRENT state: only late unparks of earlier broadcasts can have happened since *)
              let rec firstn k l = if k = 0 then [] else match l with [] -> [] | x :: t -> x :: firstn (k - 1) t in
              let len = List.length p.PoolM.ws in
              s := { !s with PoolM.script = p.PoolM.script; PoolM.cst = PoolM.CIdle;
                             PoolM.ws = firstn len !s.PoolM.ws; PoolM.wviews = firstn len !s.PoolM.wviews;
                             PoolM.rc = p.PoolM.rc; PoolM.alive = false; PoolM.cur = p.PoolM.cur;
                             PoolM.slots = p.PoolM.slots; PoolM.lview = p.PoolM.lview };
              pending_spawn := []; aborted := true
            | _ -> raise (Reject "refused thread creation not expected here"))
         | ["Y"; sl] ->
           if not !aborted then raise (Reject "abort without refused thread creation");
           aborted := false;
           (match !s.PoolM.script with
            | n :: rest ->
              let n = int_of_nat n in
              if sl <> String.concat "," (List.init (n + 1) (fun _ -> "-")) then raise (Reject "slots of the aborted broadcast not empty");
              let before = !s.PoolM.ws in
              let w = List.length before + !spawned_ok in
              let saved_token = !s.PoolM.token in
              (* workers that still owe an unpark from an earlier broadcast take part in the stand-in as idle
                 workers and get their state back afterwards *)
              let idle = List.map (fun x -> match x with PoolM.WUnpark _ -> PoolM.WIdle | x -> x) before in
              s := { !s with PoolM.script = nat_of_int w :: rest; PoolM.ws = idle };
              let st l = step l "stand-in broadcast for the aborted one" in
              st (PoolM.EBegin (nat_of_int w));
              for k = 1 to w do st (PoolM.ESend (nat_of_int k)) done;
              st (PoolM.ERun0 false);
              if w > 0 then begin
                st PoolM.ELoad;
                for k = 1 to w do
                  st (PoolM.EWRun (nat_of_int k, false)); st (PoolM.EWClone (nat_of_int k)); st (PoolM.EWDec (nat_of_int k))
                done;
                st (PoolM.EWUnpark (nat_of_int w)); st PoolM.EPark
              end;
              st PoolM.ELoad;
              if !s.PoolM.cst <> PoolM.CIdle then raise (Reject "stand-in broadcast did not return");
              let ws' = List.mapi (fun i x -> match List.nth_opt before i with
                  | Some (PoolM.WUnpark b) -> PoolM.WUnpark b | _ -> x) !s.PoolM.ws in
              s := { !s with PoolM.ws = ws'; PoolM.token = saved_token };
              incr rets_seen
            | [] -> raise (Reject "abort without broadcast"))
         | ["Q"; c] -> rendezvous (int_of_string c)
         | ["R"; t; c; "1"] ->
           if t <> c then raise (Reject "task received by the wrong thread");
           rendezvous (int_of_string c)
         | ["R"; t; c; "0"] ->
           if t <> c then raise (Reject "channel closed on the wrong thread");
           step (PoolM.EWExit (nat_of_int (int_of_string t))) "exit"
         | ["C"; t; i; p] when p = "0" || p = "1" ->
           if t <> i then raise (Reject "index called on the wrong thread");
           let p = (p = "1") in
           if t = "0" then step (PoolM.ERun0 p) "run0" else step (PoolM.EWRun (nat_of_int (int_of_string t), p)) "run"
         | ["H"; t; "1"] -> step (PoolM.EWClone (nat_of_int (int_of_string t))) "clone"
         | ["D"; t; old] when old <> "x" ->
           if int_of_string old <> rc () then raise (Reject (Printf.sprintf "fetch_sub returned %s, model has %d" old (rc ())));
           step (PoolM.EWDec (nat_of_int (int_of_string t))) "dec"
         | ["U"; t; "0"] -> step (PoolM.EWUnpark (nat_of_int (int_of_string t))) "unpark"
         | ["L"; "0"; v] when v <> "x" ->
           if int_of_string v <> rc () then raise (Reject (Printf.sprintf "load returned %s, model has %d" v (rc ())));
           step PoolM.ELoad "load"
         | ["P"; "0"] -> step PoolM.EPark "park"
         | ["W"; "0"] -> step PoolM.ESpurious "spurious"
         | ["T"; sl] | ["Z"; sl] ->
           (* T: par_extend returned; Z: it was left by a panic escaping from the drop of the caller's caught
              payload.  In pool.rs that drop comes after the wait loop, i.e. after the model's return step. *)
           (match !s.PoolM.cst, List.rev !s.PoolM.returned with
            | PoolM.CIdle, r :: _ when List.length !s.PoolM.returned = !rets_seen + 1 ->
              incr rets_seen;
              if string_of_slots r.PoolM.r_slots <> sl then
                raise (Reject ("result slots: model " ^ string_of_slots r.PoolM.r_slots))
            | _ -> raise (Reject "return not expected here"))
         | "G" :: _ -> raise (Reject "result vector: not (old elements ++ n+1 new slots) within capacity")
         | ["X"] -> step PoolM.EDrop "drop"
         | ["E"; t] ->
           (match List.nth_opt !s.PoolM.ws (int_of_string t - 1) with
            | Some PoolM.WExit -> ()
            | _ -> raise (Reject "thread end without channel close"))
         | _ -> raise (Reject "no such event in the model"))
      with Failure m -> raise (Reject ("malformed: " ^ m)))) evs;
    (match failure with Some f -> raise (Reject ("implementation: " ^ f)) | None -> ());
    if Hashtbl.length half_done <> 0 then raise (Reject "unfinished rendezvous");
    if not (PoolM.final !s) then raise (Reject "model not in its final state at the end of the trace");
    if not (PoolM.inv_all cfg !s) then raise (Reject "model invariant false");
    "accept"
  with Reject why ->
    Printf.sprintf "reject@%d:%s:%s" !idx (try List.nth evs (!idx - 1) with _ -> "-") why

let ev_of_token (tok : string) : PoolMon.ev =
  let n x = nat_of_int (int_of_string x) in
  try
    match fields tok with
    | ["B"; x] -> PoolMon.VBcast (n x)
    | ["N"; v] -> PoolMon.VNew (n v)
    | ["S"; k] -> PoolMon.VSpawn (n k)
    | ["Q"; c] -> PoolMon.VSent (n c)
    | ["F"; _] -> PoolMon.VSpawnFail
    | ["Y"; sl] -> PoolMon.VAbortEnd (slots_of_string sl)
    | ["Y"] -> PoolMon.VAbortEnd []
    | ["R"; t; c; "1"] -> PoolMon.VRecv (n t, n c, true)
    | ["R"; t; c; "0"] -> PoolMon.VRecv (n t, n c, false)
    | ["R"; t; _; "x"] -> PoolMon.VDead (n t)
    | ["C"; t; _; "x"] -> PoolMon.VDead (n t)
    | ["C"; t; _; "s"] -> PoolMon.VWrongTask (n t)
    | ["C"; t; i; p] -> PoolMon.VCall (n t, n i, p = "1")
    | ["H"; t; "x"] -> PoolMon.VDead (n t)
    | ["H"; t; o] -> PoolMon.VClone (n t, o = "1")
    | ["D"; t; "x"] -> PoolMon.VDead (n t)
    | ["D"; t; old] -> PoolMon.VDec (n t, n old)
    | ["U"; t; "x"] -> PoolMon.VDead (n t)
    | ["U"; t; o] -> PoolMon.VUnpark (n t, o = "1")
    | ["L"; t; "x"] -> PoolMon.VDead (n t)
    | ["L"; _; v] -> PoolMon.VLoad (n v)
    | ["P"; _] -> PoolMon.VPark
    | ["W"; _] -> PoolMon.VSpur
    | ["T"; sl] | ["Z"; sl] -> PoolMon.VRet (slots_of_string sl)
    | ["T"] | ["Z"] -> PoolMon.VRet []
    | ["X"] -> PoolMon.VDrop
    | "G" :: _ -> PoolMon.VBadVec
    | ["E"; t] -> PoolMon.VExit (n t)
    | _ -> PoolMon.VOther
  with _ -> PoolMon.VOther

let clause_name = function
  | 1 -> "once-per-index(the-task)" | 2 -> "results-indexed" | 3 -> "touch-after-caller-may-resume" | 4 -> "worker-not-exited"
  | 5 -> "spawn-count" | 6 -> "dead-task-block-access" | 7 -> "foreign-event" | 8 -> "incomplete(deadlock)"
  | 9 -> "caller-left-broadcast-with-nonzero-counter" | k -> "clause" ^ string_of_int k

(* which: the clauses that belong to the property; the others are reported by the sibling property *)
let pool_sb (which : int list) (line : string) : string =
  let case, impl = split_sb line in
  if String.length impl >= 5 && String.sub impl 0 5 = "crash" then
    (* a crash of the harness process (e.g. std's set_len precondition abort) is a memory-safety
       outcome of par_extend / the task block: reported under C06 *)
    (if List.mem 2 which then "false harness-crash " ^ impl else "true") else
  let scr, pan = parse_case case in
  let evs, failure = split_failure impl in
  let fails = PoolMon.check (List.map nat_of_int scr) (List.map (fun (b, i) -> (nat_of_int b, nat_of_int i)) pan)
      (List.map ev_of_token evs) in
  let fails = List.sort_uniq compare (List.map int_of_nat fails) in
  let fails = List.filter (fun f -> List.mem f which) fails in
  let extra = match failure with
    | Some f when List.mem 8 which -> [f]
    | _ -> [] in
  if fails = [] && extra = [] then "true"
  else "false " ^ String.concat "," (List.map clause_name fails @ extra)

let c06_clauses = [1; 2; 3; 5; 6; 7; 9]
let c07_clauses = [4; 8]

(* generated-constant side conditions, as the driver sees them (the proof obligations are in Properties/) *)
let pool_consts _ =
  let c = PoolM.code_cfg in
  Printf.sprintf "release=%b acquire=%b old=%d loop=%b nonzero=%b"
    (PoolM.is_release c.PoolM.c_dec) (PoolM.is_acquire c.PoolM.c_load) (int_of_nat c.PoolM.c_unpark_old)
    c.PoolM.c_loop c.PoolM.c_nonzero

(* ---- C07 at the public surface: every run owns a pool; after the run it is dropped ---- *)

(* case "runs=test,bench": each run is modelled as one pool executing the broadcasts of the harness's two
   benchmarks (threads [1,3] and [2,5] -> aux counts 0,2,1,4) and then dropped; the model is run to its final
   state along enabled labels (the measure guarantees termination) and the workers that have not exited are
   counted: by C07_workers_exit / C07_reaches_final that is 0. *)
let pool_leak line =
  if List.mem "boom=1" (toks line) then
    (* user code panics on a pooled thread: in the model that call "panics" (EWRun k true), takes the ordinary
       protocol path (catch_unwind in the worker loop), the broadcast returns; divan then reports the panic and the
       process ends the ordinary way *)
    "panic-reported exit=101"
  else
  let runs = List.concat_map (fun t ->
      if String.length t > 5 && String.sub t 0 5 = "runs=" then
        List.filter (fun x -> x <> "") (String.split_on_char ',' (String.sub t 5 (String.length t - 5)))
      else []) (toks line) in
  let cfg = PoolM.code_cfg in
  let survivors = ref 0 and workers = ref 0 in
  List.iter (fun _ ->
    let s = ref (PoolM.init (List.map nat_of_int [0; 2; 1; 4])) in
    let fuel = ref 100000 in
    while not (PoolM.final !s) && !fuel > 0 do
      decr fuel;
      (match PoolM.enabled_labels cfg !s with
       | l :: _ -> (match PoolM.step cfg !s l with Some s' -> s := s' | None -> fuel := 0)
       | [] -> fuel := 0)
    done;
    if not (PoolM.final !s) then failwith "model did not reach its final state";
    workers := max !workers (List.length !s.PoolM.ws);
    survivors := !survivors + List.length (List.filter (fun w -> w <> PoolM.WExit) !s.PoolM.ws)) runs;
  Printf.sprintf "survivors=%d runs=%d seen=%d" !survivors (List.length runs) !workers

let pool_leak_sb line =
  let case, impl = split_sb line in
  let boom = List.mem "boom=1" (toks case) in
  match toks impl with
  | "hang" :: _ -> "false hang(deadlock): the run did not finish"
  | "killed" :: _ -> "false process-killed " ^ impl
  | "panic-reported" :: _ when boom -> "true"
  | _ when boom -> "false panicking-call-did-not-end-as-a-reported-panic " ^ impl
  | t :: _ when t = "survivors=0" -> "true"
  | t :: _ when String.length t > 10 && String.sub t 0 10 = "survivors=" -> "false worker-not-exited-after-the-run " ^ t
  | _ -> "false " ^ impl

let dispatch mode line =
  match mode with
  | "c07leak" -> pool_leak line
  | "c07leak.sb" -> pool_leak_sb line
  | "pool-bfs" -> pool_bfs line
  | "c06" | "c07" | "replay" -> pool_replay line
  | "c06.sb" -> pool_sb c06_clauses line
  | "c07.sb" -> pool_sb c07_clauses line
  | "replay.sb" -> pool_sb (c06_clauses @ c07_clauses) line
  | "pool-consts" -> pool_consts line
  | _ -> failwith ("unknown mode " ^ mode)

let () = main dispatch
