(* ---- group loop: C03 / C04 / C19 ---- *)

let kv line =
  List.filter_map (fun t ->
    match String.index_opt t '=' with
    | Some i -> Some (String.sub t 0 i, String.sub t (i + 1) (String.length t - i - 1))
    | None -> None) (toks line)

let get tbl k d = try List.assoc k tbl with Not_found -> d

let opt_n s = if s = "-" then None else Some (n_of_string s)

let split_on c s = if s = "" then [] else String.split_on_char c s

(* "secs:nanos" -> picoseconds through the model of FineDuration::from *)
let picos_of s default =
  if s = "-" then Ok default
  else match String.split_on_char ':' s with
    | [a; b] -> fine_from_duration (n_of_string a) (n_of_string b)
    | _ -> failwith "duration"

type parsed = { cfg : cfg; threads : int; init : n; hist : raw list list }

let quad_of_list = function
  | [a; b; c; d] -> { q_bytes = a; q_chars = b; q_cycles = c; q_items = d }
  | _ -> failwith "quad"

(* "a/b/c/d" per kind; a single number is the items total *)
let ctotals s =
  match String.split_on_char '/' s with
  | [x] -> { q_bytes = N0; q_chars = N0; q_cycles = N0; q_items = n_of_string x }
  | l -> quad_of_list (List.map n_of_string l)

let ic_mask s =
  match s with
  | "0" -> qconst false
  | "1" -> { (qconst false) with q_items = true }
  | _ -> quad_of_list (List.init 4 (fun i -> s.[i] = '1'))

let parse_case (case : string) (histpart : string) : parsed res =
  let t = kv case in
  let h = kv histpart in
  match picos_of (get t "min" "-") N0, picos_of (get t "max" "-") u128_max with
  | Panic p, _ | _, Panic p -> Panic p
  | Ok mn, Ok mx ->
    let oh = match List.map n_of_string (split_on ',' (get t "oh" "0,0,0,0")) with
      | [a; b; c; d] -> { oh_loop = a; oh_alloc = b; oh_dealloc = c; oh_realloc = d }
      | _ -> failwith "oh" in
    let cfg = {
      c_test = (get t "mode" "b" = "t");
      c_count = opt_n (get t "n" "-");
      c_size = opt_n (get t "s" "-");
      c_min = mn; c_max = mx;
      c_skip = (get t "skip" "-" = "1");
      c_freq = n_of_string (get t "f" "1000000000000");
      c_prec = n_of_string (get t "p" "1");
      c_oh = oh;
      c_input_counts = ic_mask (get t "ic" "0") } in
    let init = match get h "init" "-" with "-" -> N0 | s -> n_of_string s in
    let hist = List.map (fun round ->
        List.map (fun r ->
            match String.split_on_char ':' r with
            | [s; e; ct] -> { r_start = n_of_string s; r_end = n_of_string e; r_alloc = ai_zero; r_ctotal = ctotals ct }
            | [s; e; ct; al] ->
              (* `al` allocations of a Box<u64>, each freed again within the timed section *)
              let a = n_of_string al in
              let bytes = N.mul a (n_of_small 8) in
              { r_start = n_of_string s; r_end = n_of_string e; r_ctotal = ctotals ct;
                r_alloc = { ai_zero with ai_alloc_c = a; ai_alloc_s = bytes; ai_dealloc_c = a; ai_dealloc_s = bytes } }
            | _ -> failwith "raw") (split_on ',' round))
        (split_on ';' (get h "h" "")) in
    Ok { cfg; threads = int_of_string (get t "T" "1"); init; hist }

(* model input: "<case> | vt=.. init=.. h=.." *)
let split_bar line =
  let n = String.length line in
  let rec find i = if i + 2 >= n then None else if String.sub line i 3 = " | " then Some i else find (i + 1) in
  match find 0 with
  | Some i -> (String.sub line 0 i, String.sub line (i + 3) (n - i - 3))
  | None -> (line, "")

let alloc_s ((i, a) : n * alloc_info) =
  String.concat ":" (List.map string_of_n [i; a.ai_alloc_c; a.ai_alloc_s; a.ai_dealloc_c; a.ai_grow_c; a.ai_shrink_c])

(* the dump lists alloc_info_by_sample sorted by key *)
let sorted_allocs (st : state) =
  List.sort (fun (i, _) (j, _) -> compare (int_of_n i) (int_of_n j)) st.s_store.st_allocs

let seen_line (st : state) (s : seen) =
  Printf.sprintf "K=%d sizes=%s calls=%s rag=0 fs=%s dur=%s ai=%s cnt=%s ss=%s si=%s"
    (List.length s.o_sizes) (list_s string_of_n s.o_sizes) (list_s string_of_n s.o_calls)
    (string_of_n s.o_final_size) (list_s string_of_n s.o_samples) (list_s alloc_s (sorted_allocs st))
    (String.concat "/" (List.map (fun k -> list_s string_of_n (qget k s.o_counts)) all_kinds)) (string_of_n s.o_stat_samples) (string_of_n s.o_stat_iters)

let model line =
  let (case, histpart) = split_bar line in
  match parse_case case histpart with
  | Panic p -> "panic " ^ string_of_panic p
  | Ok p ->
    match bench_loop p.cfg p.init p.hist with
    | Panic e -> "panic " ^ string_of_panic e
    | Ok out ->
      match seen_of_outcome (nat_of_int p.threads) out with
      | Panic e -> "panic " ^ string_of_panic e
      | Ok s -> (if out_done out then "ok " else "starved ") ^ seen_line (out_state out) s

(* impl line "ok K=.. sizes=.. ... | vt=.. init=.. h=.." -> seen *)
let list_n s = List.map n_of_string (split_on ',' s)

let parse_seen (obs : string) : seen option =
  if String.length obs < 3 || String.sub obs 0 3 <> "ok " then None
  else
    let t = kv obs in
    let num k = match get t k "-" with "-" -> None | s -> Some (n_of_string s) in
    match num "fs", num "ss", num "si" with
    | Some fs, Some ss, Some si when get t "rag" "1" = "0" ->
      Some { o_done = true; o_sizes = list_n (get t "sizes" ""); o_calls = list_n (get t "calls" "");
             o_final_size = fs; o_samples = list_n (get t "dur" "");
             o_alloc_keys = List.map (fun e -> n_of_string (List.hd (String.split_on_char ':' e))) (split_on ',' (get t "ai" ""));
             o_counts = (match String.split_on_char '/' (get t "cnt" "///") with
                 | [_; _; _; _] as l -> quad_of_list (List.map list_n l)
                 | [x] -> { (qconst []) with q_items = list_n x }
                 | _ -> failwith "cnt"); o_stat_samples = ss; o_stat_iters = si }
    | _ -> None

let check which line =
  let (case, impl) = split_sb line in
  let (obs, histpart) = split_bar impl in
  match parse_case case histpart, parse_seen obs with
  | Panic p, _ -> verdict false ("case-panics:" ^ string_of_panic p)
  | _, None -> verdict false ("outcome:" ^ (if String.length obs > 60 then String.sub obs 0 60 else obs))
  | Ok p, Some s ->
    (match which with
     | "c03" ->
       if not (c03_sb p.cfg (nat_of_int p.threads) p.init p.hist s) then verdict false "C03:counts-not-as-fixed-by-(n,s,T)"
       else verdict (c03_tuned_sb p.cfg (nat_of_int p.threads) p.init p.hist s)
           "C03:tuned-run-not-(first-passing-round+ceil(n/T))-rounds/T*ceil(n/T)-samples"
     | "c04" -> verdict (c04_sb p.cfg p.init p.hist s) "C04:rounds-not-the-least-k-of-the-rule"
     | "c19" -> verdict (c19_sb p.cfg p.init p.hist s) "C19:tuning-sequence/discard-rule"
     | _ -> failwith "check")

(* ---- C03 end to end: "... mode=b|t n=<n|-> s=<s> threads=a,b,c" ---- *)
(* decimal seconds "ip[.frac]" -> picoseconds through the model's exact [decimal_nanos] *)
let picos_of_decimal s =
  let ip, frac = match String.split_on_char '.' s with
    | [a] -> a, ""
    | [a; b] -> a, b
    | _ -> failwith "decimal" in
  if String.length frac > 9 then failwith "more than 9 fractional digits";
  let digits = List.init (String.length frac) (fun i -> n_of_small (Char.code frac.[i] - 48)) in
  N.mul (decimal_nanos (n_of_string (if ip = "" then "0" else ip)) digits) (n_of_small 1000)

let e2e_cfg t =
  { c_test = (get t "mode" "b" = "t"); c_count = opt_n (get t "n" "-"); c_size = opt_n (get t "s" "-");
    c_min = (match get t "mins" "-" with "-" -> N0 | x -> picos_of_decimal x);
    c_max = (if get t "mx" "-" = "0" then N0 else match get t "maxs" "-" with "-" -> u128_max | x -> picos_of_decimal x);
    c_skip = (get t "skipx" "0" = "1" || get t "eskip" "0" = "1");
    c_freq = (if get t "vcost" "-" = "-" then n_of_small 1 else n_of_string "1000000000000");
    c_prec = (match get t "prec" "-" with "-" -> n_of_small 1 | x -> n_of_string x);
    c_oh = { oh_loop = N0; oh_alloc = N0; oh_dealloc = N0; oh_realloc = N0 }; c_input_counts = qconst false }

(* the history of a run on the virtual clock: every call costs [vcost] ticks, nothing else does *)
let e2e_hist t th rounds =
  let s = (match opt_n (get t "s" "-") with Some s -> s | None -> n_of_small 1) in
  match get t "vcost" "-" with
  | "-" ->
    let round = List.init th (fun _ -> { r_start = N0; r_end = n_of_small 1; r_alloc = ai_zero; r_ctotal = qconst N0 }) in
    List.init rounds (fun _ -> round)
  | c ->
    let per = N.mul s (n_of_string c) in
    List.init rounds (fun j ->
        let st = N.mul per (n_of_small j) in
        List.init th (fun _ -> { r_start = st; r_end = N.add st per; r_alloc = ai_zero; r_ctotal = qconst N0 }))

let e2e_model line =
  let t = kv line in
  let cfg = e2e_cfg t in
  let rows = List.map (fun ts ->
      let th = int_of_string ts in
      (* no time budget is set, so the timestamps do not matter: more rounds than can be needed *)
      let n = (match cfg.c_count with Some x -> int_of_n x | None -> 100) in
      let hist = e2e_hist t th (if get t "vcost" "-" = "-" then n / th + 3 else 400) in
      match bench_loop cfg N0 hist with
      | Panic e -> "t=" ^ ts ^ " panic " ^ string_of_panic e
      | Ok out ->
        match seen_of_outcome (nat_of_int th) out with
        | Panic e -> "t=" ^ ts ^ " panic " ^ string_of_panic e
        | Ok s ->
          if not (out_done out) then "t=" ^ ts ^ " starved"
          else if cfg.c_test then Printf.sprintf "t=%s samples=- iters=- calls=%s" ts (list_s string_of_n s.o_calls)
          else Printf.sprintf "t=%s samples=%s iters=%s calls=%s" ts (string_of_n s.o_stat_samples)
              (string_of_n s.o_stat_iters) (list_s string_of_n s.o_calls))
      (split_on ',' (get t "threads" "1")) in
  String.concat ";" rows

let e2e_check line =
  let (case, impl) = split_sb line in
  let t = kv case in
  let cfg = e2e_cfg t in
  let s = match cfg.c_size with Some s -> s | None -> failwith "e2e needs an explicit size" in
  let rows = split_on ';' impl in
  let want = split_on ',' (get t "threads" "1") in
  if List.length rows <> List.length want then verdict false ("rows:" ^ impl)
  else
    let bad = List.filter_map (fun (ts, row) ->
        let r = kv row in
        let num k = match get r k "-" with "-" -> if cfg.c_test then Some N0 else None | x -> (try Some (n_of_string x) with _ -> None) in
        match get r "t" "?" = ts, num "samples", num "iters" with
        | true, Some sa, Some it ->
          let calls = (try Some (list_n (get r "calls" "")) with _ -> None) in
          (match calls with
           (* max_time = 0 is a zero case like n = 0 (C03_zero_runs_nothing): nothing may be called *)
          | Some cl when c03_e2e_sb (if cfg.c_max = N0 then Some N0 else cfg.c_count) s (n_of_string ts) cfg.c_test sa it cl -> None
           | _ -> Some ("t=" ^ ts))
        | _ -> Some ("t=" ^ ts ^ ":unreadable")) (List.combine want rows) in
    verdict (bad = []) ("C03:reported-samples/iters/calls-wrong-at-" ^ String.concat "," bad)

(* C04, time limits parsed from the command line / environment, run on the virtual clock:
   the rounds seen (calls / size) must be the least k of the rule for the exactly converted limits *)
let cli_check line =
  let (case, impl) = split_sb line in
  let t = kv case in
  let cfg = e2e_cfg t in
  let s = match cfg.c_size with Some s -> int_of_n s | None -> failwith "size" in
  let want = split_on ',' (get t "threads" "1") in
  let rows = split_on ';' impl in
  if List.length rows <> List.length want then verdict false ("rows:" ^ impl)
  else
    let bad = List.filter_map (fun (ts, row) ->
        let r = kv row in
        let th = int_of_string ts in
        match (try Some (List.map int_of_n (list_n (get r "calls" ""))) with _ -> None) with
        | Some (c0 :: rest) when get r "t" "?" = ts && s > 0 && c0 mod s = 0 && List.for_all (fun c -> c = c0) rest
                                && List.length rest = th - 1 ->
          let k = c0 / s in
          let hist = e2e_hist t th k in
          let seen = { o_done = true; o_sizes = List.init k (fun _ -> n_of_small s); o_calls = []; o_final_size = N0;
                       o_samples = []; o_alloc_keys = []; o_counts = qconst []; o_stat_samples = N0; o_stat_iters = N0 } in
          if c04_sb cfg N0 hist seen then None else Some ("t=" ^ ts)
        | _ -> Some ("t=" ^ ts ^ ":unreadable")) (List.combine want rows) in
    verdict (bad = []) ("C04:rounds-not-the-least-k-for-the-parsed-limits-at-" ^ String.concat "," bad)

(* C04 on the OS timer: every call sleeps [sleepms]; at most ceil(max/sleep) rounds *)
let os_params t =
  let mx = (match get t "maxs" "-" with "-" -> u128_max | x -> picos_of_decimal x) in
  let d = N.mul (n_of_string (get t "sleepms" "1")) (n_of_string "1000000000") in
  (mx, d)

let os_model line =
  let t = kv line in
  let (mx, d) = os_params t in
  let rec bound r = if r < 100000 && c04_os_sb mx d (n_of_small (r + 1)) then bound (r + 1) else r in
  String.concat ";" (List.map (fun ts -> Printf.sprintf "t=%s rounds<=%d" ts (bound 0)) (split_on ',' (get t "threads" "1")))

let os_check line =
  let (case, impl) = split_sb line in
  let t = kv case in
  let (mx, d) = os_params t in
  let s = int_of_string (get t "s" "1") in
  let rows = split_on ';' impl in
  let bad = List.filter_map (fun row ->
      let r = kv row in
      match (try Some (List.map int_of_n (list_n (get r "calls" ""))) with _ -> None) with
      | Some (c0 :: _) when c0 > 0 && c0 mod s = 0 && c04_os_sb mx d (n_of_small (c0 / s)) -> None
      | _ -> Some ("t=" ^ get r "t" "?")) rows in
  verdict (bad = [] && rows <> []) ("C04:more-rounds-than-the-ceiling-allows-at-" ^ String.concat "," bad)

(* C19 end to end: tuned size on the virtual clock; the history comes from the dumped event log *)
let c19cli_model line =
  let (case, histpart) = split_bar line in
  let t = kv case in
  let cfg = e2e_cfg t in
  let ts = get t "threads" "1" in
  match parse_case "" histpart with
  | Panic p -> "panic " ^ string_of_panic p
  | Ok p ->
    match bench_loop cfg p.init p.hist with
    | Panic e -> "t=" ^ ts ^ " panic " ^ string_of_panic e
    | Ok out ->
      match seen_of_outcome (nat_of_int (int_of_string ts)) out with
      | Panic e -> "t=" ^ ts ^ " panic " ^ string_of_panic e
      | Ok s ->
        if not (out_done out) then "t=" ^ ts ^ " starved after " ^ string_of_int (List.length s.o_sizes) ^ " rounds"
        else Printf.sprintf "t=%s samples=%s iters=%s calls=%s sizes=%s" ts (string_of_n s.o_stat_samples)
            (string_of_n s.o_stat_iters) (list_s string_of_n s.o_calls) (list_s string_of_n s.o_sizes)

let c19cli_check line =
  let (case, impl) = split_sb line in
  let (obs, histpart) = split_bar impl in
  let t = kv case in
  let cfg = e2e_cfg t in
  let r = kv obs in
  match parse_case "" histpart with
  | Panic p -> verdict false ("history:" ^ string_of_panic p)
  | Ok p ->
    let num k = (try Some (n_of_string (get r k "-")) with _ -> None) in
    match num "samples", num "iters", (try Some (list_n (get r "sizes" "")) with _ -> None) with
    | Some sa, Some it, Some sizes when get r "badlog" "0" = "0" && get r "t" "?" = get t "threads" "1" ->
      verdict (c19_e2e_sb cfg p.init p.hist sizes sa it) "C19:tuning-sequence/max_time-covers-tuning/reported-figures"
    | _ -> verdict false ("outcome:" ^ (if String.length obs > 80 then String.sub obs 0 80 else obs))

(* C04 end to end, history from the event log: the rounds are the least k of the rule *)
let c04ev_check line =
  let (case, impl) = split_sb line in
  let (obs, histpart) = split_bar impl in
  let t = kv case in
  let cfg = e2e_cfg t in
  let r = kv obs in
  match parse_case "" histpart with
  | Panic p -> verdict false ("history:" ^ string_of_panic p)
  | Ok p ->
    match (try Some (list_n (get r "sizes" "?")) with _ -> None) with
    | Some sizes when get r "badlog" "0" = "0" && get r "t" "?" = get t "threads" "1" ->
      let seen = { o_done = true; o_sizes = sizes; o_calls = []; o_final_size = N0; o_samples = []; o_alloc_keys = [];
                   o_counts = qconst []; o_stat_samples = N0; o_stat_iters = N0 } in
      verdict (c04_sb cfg p.init p.hist seen) "C04:rounds-not-the-least-k-of-the-rule"
    | _ -> verdict false ("outcome:" ^ (if String.length obs > 80 then String.sub obs 0 80 else obs))

(* C03 reported figures: the model's Stats.sample_count / iter_count of a state holding m samples of size s *)
let fig_model line =
  let t = kv line in
  let s = n_of_string (get t "s" "1") and m = int_of_string (get t "m" "0") in
  let st = { s_mode = MCollect s; s_rem = None; s_elapsed = N0; s_size = s;
             s_store = { st_samples = List.init m (fun _ -> n_of_small 1000); st_allocs = []; st_counts = qconst [] };
             s_sizes = [] } in
  match stat_iter_count st with
  | Panic e -> "panic " ^ string_of_panic e
  | Ok it -> Printf.sprintf "samples=%s iters=%s" (string_of_n (stat_sample_count st)) (string_of_n it)

let fig_check line =
  let (case, impl) = split_sb line in
  let t = kv case and r = kv impl in
  match (try Some (n_of_string (get r "samples" "-"), n_of_string (get r "iters" "-")) with _ -> None) with
  | Some (sa, it) -> verdict (c03_fig_sb (n_of_string (get t "s" "1")) (n_of_string (get t "m" "0")) sa it) "C03:iters-not-samples-times-size"
  | None -> verdict false ("outcome:" ^ impl)

(* C04, time origin vs overhead calibration: history, t0 and the calibration time come from the event log *)
let cal_parts histpart =
  let h = kv histpart in
  (n_of_string (get h "t0" "0"), n_of_string (get h "cal" "0"))

let c04cal_model line =
  let (case, histpart) = split_bar line in
  let t = kv case in
  let cfg = e2e_cfg t in
  let ts = get t "threads" "1" in
  let (t0, cal) = cal_parts histpart in
  match parse_case "" histpart with
  | Panic p -> "panic " ^ string_of_panic p
  | Ok p ->
    match bench_loop_cal cfg t0 cal p.hist with
    | Panic e -> "t=" ^ ts ^ " panic " ^ string_of_panic e
    | Ok out ->
      match seen_of_outcome (nat_of_int (int_of_string ts)) out with
      | Panic e -> "t=" ^ ts ^ " panic " ^ string_of_panic e
      | Ok s ->
        if not (out_done out) then "t=" ^ ts ^ " starved after " ^ string_of_int (List.length s.o_sizes) ^ " rounds"
        else Printf.sprintf "t=%s samples=%s iters=%s calls=%s sizes=%s" ts (string_of_n s.o_stat_samples)
            (string_of_n s.o_stat_iters) (list_s string_of_n s.o_calls) (list_s string_of_n s.o_sizes)

let c04cal_check line =
  let (case, impl) = split_sb line in
  let (obs, histpart) = split_bar impl in
  let t = kv case in
  let cfg = e2e_cfg t in
  let r = kv obs in
  let (t0, cal) = cal_parts histpart in
  match parse_case "" histpart with
  | Panic p -> verdict false ("history:" ^ string_of_panic p)
  | Ok p ->
    match (try Some (list_n (get r "sizes" "?")) with _ -> None) with
    | Some sizes when get r "badlog" "0" = "0" && get r "t" "?" = get t "threads" "1" ->
      let seen = { o_done = true; o_sizes = sizes; o_calls = []; o_final_size = N0; o_samples = []; o_alloc_keys = [];
                   o_counts = qconst []; o_stat_samples = N0; o_stat_iters = N0 } in
      verdict (c04_cal_sb cfg t0 cal p.hist seen)
        ("C04:rounds-not-the-least-k-with-elapsed-measured-from-the-first-sample(calibration=" ^ string_of_n cal ^ "ps)")
    | _ -> verdict false ("outcome:" ^ (if String.length obs > 80 then String.sub obs 0 80 else obs))

(* C04, IntoDuration: "u=<whole seconds>" / "f=<decimal seconds>" -> exact nanoseconds *)
let dur_ns line =
  match String.index_opt line '=' with
  | Some 1 when line.[0] = 'u' -> N.mul (n_of_string (String.sub line 2 (String.length line - 2))) (n_of_string "1000000000")
  | Some 1 when line.[0] = 'f' -> N.div (picos_of_decimal (String.sub line 2 (String.length line - 2))) (n_of_small 1000)
  | _ -> failwith "dur"

let dur_model line =
  let ns = dur_ns line in
  let (q, r) = N.div_eucl ns (n_of_string "1000000000") in
  string_of_n q ^ ":" ^ string_of_n r

let dur_check line =
  let (case, impl) = split_sb line in
  match String.split_on_char ':' impl with
  | [a; b] -> (match (try Some (n_of_string a, n_of_string b) with _ -> None) with
      | Some (sa, nb) -> verdict (c04_dur_sb (dur_ns case) sa nb) "C04:seconds-not-converted-exactly"
      | None -> verdict false ("outcome:" ^ impl))
  | _ -> verdict false ("outcome:" ^ impl)

(* C03, IntoThreads: "t=<n>" scalar, "a=<list>" array, "r=<lo>..<hi>" range *)
let thr_input line =
  let v = String.sub line 2 (String.length line - 2) in
  match line.[0] with
  | 't' -> (true, [n_of_string v])
  | 'a' -> (false, list_n v)
  | 'r' -> (match String.index_opt v '.' with
      | Some i -> let lo = int_of_string (String.sub v 0 i) and hi = int_of_string (String.sub v (i + 2) (String.length v - i - 2)) in
        (false, List.init (max 0 (hi - lo)) (fun k -> n_of_small (lo + k)))
      | None -> failwith "range")
  | _ -> failwith "thr"

let thr_model line =
  let (scalar, input) = thr_input line in
  list_s string_of_n (if scalar then input else thr_norm input)

let thr_check line =
  let (case, impl) = split_sb line in
  let (scalar, input) = thr_input case in
  match (try Some (list_n impl) with _ -> None) with
  | Some out -> verdict (c03_threads_sb scalar input out) "C03:threads-value-not-converted-to-itself"
  | None -> verdict false ("outcome:" ^ impl)

let dispatch mode line =
  match mode with
  | "c03thr" -> thr_model line
  | "c03thr.sb" -> thr_check line
  | "c04dur" -> dur_model line
  | "c04dur.sb" -> dur_check line
  | "c04cal" -> c04cal_model line
  | "c04cal.sb" -> c04cal_check line
  | "c03fig" -> fig_model line
  | "c03fig.sb" -> fig_check line
  | "c04ev" -> c19cli_model line
  | "c04ev.sb" -> c04ev_check line
  | "c19cli" -> c19cli_model line
  | "c19cli.sb" -> c19cli_check line
  | "c04cli" -> e2e_model line
  | "c04cli.sb" -> cli_check line
  | "c04os" -> os_model line
  | "c04os.sb" -> os_check line
  | "c03" | "c04" | "c19" | "loop" -> model line
  | "c03e2e" -> e2e_model line
  | "c03e2e.sb" -> e2e_check line
  | "c03.sb" -> check "c03" line
  | "c04.sb" -> check "c04" line
  | "c19.sb" -> check "c19" line
  | "loop.sb" ->
    let a = check "c03" line and b = check "c04" line and c = check "c19" line in
    if a = "true" && b = "true" && c = "true" then "true"
    else "false " ^ String.concat ";" (List.filter (fun x -> x <> "true") [a; b; c])
  | _ -> failwith ("unknown mode " ^ mode)

let () = main dispatch
