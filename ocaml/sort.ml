(* ---- C16: natural order, argument-name comparator, sorting ---- *)

(* names are percent-escaped: bytes 0x21..0x7e except '%', ',' and '#' stand for themselves,
   "%XX" is the byte XX, "%_" is the empty name, "%0" the empty list *)
let hexv c = match c with
  | '0'..'9' -> Char.code c - 48
  | 'A'..'F' -> Char.code c - 55
  | 'a'..'f' -> Char.code c - 87
  | _ -> failwith "bad hex"

let dec_name (s : string) : n list =
  if s = "%_" then [] else begin
    let out = ref [] in
    let i = ref 0 in
    let len = String.length s in
    while !i < len do
      if s.[!i] = '%' then begin
        if !i + 2 >= len + 0 && !i + 2 > len - 0 then failwith "bad escape";
        out := n_of_small (16 * hexv s.[!i + 1] + hexv s.[!i + 2]) :: !out;
        i := !i + 3
      end else begin
        out := n_of_small (Char.code s.[!i]) :: !out;
        incr i
      end
    done;
    List.rev !out
  end

let dec_names (s : string) : n list list =
  if s = "%0" then [] else List.map dec_name (String.split_on_char ',' s)

let cmp_s = function Lt -> "lt" | Eq -> "eq" | Gt -> "gt"
let cmp_of_s = function "lt" -> Some Lt | "eq" -> Some Eq | "gt" -> Some Gt | _ -> None

let attr_of_s = function
  | "kind" -> SKind | "name" -> SName | "location" -> SLocation
  | s -> failwith ("attr " ^ s)

let bool_of_s = function "0" -> false | "1" -> true | s -> failwith ("bool " ^ s)

let rec nth_name l i = match l with
  | [] -> failwith "index"
  | x :: r -> if i = 0 then x else nth_name r (i - 1)

(* nat: "A B" *)
let nat_case line = match toks line with
  | [a; b] -> (dec_name a, dec_name b)
  | _ -> failwith "nat"

let nat line = let (a, b) = nat_case line in cmp_s (natural_cmp a b)

let nat_check line =
  let (c, i) = split_sb line in
  let (a, b) = nat_case c in
  match cmp_of_s i with
  | Some o ->
    let want = natural_spec a b in
    verdict (o = want) ("natural-order-of-token-keys-is-" ^ cmp_s want)
  | None -> verdict false ("outcome:" ^ i)

(* cmp: "attr i j names" *)
let cmp_case line = match toks line with
  | [attr; i; j; names] ->
    let names = dec_names names in
    let i = int_of_string i and j = int_of_string j in
    (attr_of_s attr, (n_of_small i, nth_name names i), (n_of_small j, nth_name names j))
  | _ -> failwith "cmp"

let cmp line = let (attr, x, y) = cmp_case line in cmp_s (arg_cmp_dec attr x y)

let cmp_check line =
  let (c, i) = split_sb line in
  let (attr, x, y) = cmp_case c in
  match cmp_of_s i with
  | Some o ->
    let want = spec_arg_cmp_dec attr x y in
    verdict (o = want) ("specified-order-is-" ^ cmp_s want)
  | None -> verdict false ("outcome:" ^ i)

(* sort: "attr reverse names" *)
let sort_case line = match toks line with
  | [attr; rev; names] -> (attr_of_s attr, bool_of_s rev, dec_names names)
  | _ -> failwith "sort"

let perm_s l = if l = [] then "ok -" else "ok " ^ list_s string_of_n l

let sort line =
  let (attr, rev, names) = sort_case line in
  match sort_args_dec attr rev names with
  | Ok l -> perm_s l
  | Panic p -> "panic " ^ string_of_panic p

let parse_perm s = match toks s with
  | ["ok"; "-"] -> Some []
  | ["ok"; l] -> (try Some (List.map n_of_string (String.split_on_char ',' l)) with Failure _ -> None)
  | _ -> None

let sort_check line =
  let (c, i) = split_sb line in
  let (attr, rev, names) = sort_case c in
  match parse_perm i with
  | Some out -> verdict (sort_sb_dec attr rev names out) "not-the-sorted-permutation-of-the-specified-order"
  | None -> verdict false ("outcome:" ^ i)

(* class: "name" -> class of the name (input histogram / domain check) *)
let cls line = string_of_n (name_class (dec_name line))

(* tok: "name" -> kinds and lengths of the tokens, cut offsets, utf8 validity of every token *)
let tok line =
  let s = dec_name line in
  let ts = tokenize s in
  String.concat " " (List.map (fun (k, t) ->
    (if k then "d" else "t") ^ string_of_int (List.length t) ^ (if utf8_wf t then "" else "!")) ts)

let dispatch mode line =
  match mode with
  | "nat" -> nat line
  | "nat.sb" -> nat_check line
  | "cmp" -> cmp line
  | "cmp.sb" -> cmp_check line
  | "sort" -> sort line
  | "sort.sb" -> sort_check line
  | "class" -> cls line
  | "tok" -> tok line
  | _ -> failwith ("unknown mode " ^ mode)

let () = main dispatch
