(* ---- C16: natural order, argument-name comparator, sorting ---- *)

(* names are percent-escaped: bytes 0x21..0x7e except '%', ',' and '#' stand for themselves,
   "%XX" is the byte XX, "%_" is the empty name, "%0" the empty list *)
let hexv c = match c with
  | '0'..'9' -> Char.code c - 48
  | 'A'..'F' -> Char.code c - 55
  | 'a'..'f' -> Char.code c - 87
  | _ -> failwith "bad hex"

let dec_name (s : string) : n list =
  if s = "%_" then [] else begin
    let out = ref [] in
    let i = ref 0 in
    let len = String.length s in
    while !i < len do
      if s.[!i] = '%' then begin
        if !i + 2 >= len + 0 && !i + 2 > len - 0 then failwith "bad escape";
        out := n_of_small (16 * hexv s.[!i + 1] + hexv s.[!i + 2]) :: !out;
        i := !i + 3
      end else begin
        out := n_of_small (Char.code s.[!i]) :: !out;
        incr i
      end
    done;
    List.rev !out
  end

let dec_names (s : string) : n list list =
  if s = "%0" then [] else List.map dec_name (String.split_on_char ',' s)

let cmp_s = function Lt -> "lt" | Eq -> "eq" | Gt -> "gt"
let cmp_of_s = function "lt" -> Some Lt | "eq" -> Some Eq | "gt" -> Some Gt | _ -> None

let attr_of_s = function
  | "kind" -> SKind | "name" -> SName | "location" -> SLocation
  | s -> failwith ("attr " ^ s)

let bool_of_s = function "0" -> false | "1" -> true | s -> failwith ("bool " ^ s)

let rec nth_name l i = match l with
  | [] -> failwith "index"
  | x :: r -> if i = 0 then x else nth_name r (i - 1)

(* nat: "A B" *)
let nat_case line = match toks line with
  | [a; b] -> (dec_name a, dec_name b)
  | _ -> failwith "nat"

let nat line = let (a, b) = nat_case line in cmp_s (natural_cmp a b)

let nat_check line =
  let (c, i) = split_sb line in
  let (a, b) = nat_case c in
  match cmp_of_s i with
  | Some o ->
    let want = natural_spec a b in
    verdict (o = want) ("natural-order-of-token-keys-is-" ^ cmp_s want)
  | None -> verdict false ("outcome:" ^ i)

(* ---- recorded float oracle: "f64:<16 hex digits | none | nan>,..." one cell per name ---- *)
let key_of_bits (h : string) : z =
  let b = Int64.of_string ("0x" ^ h) in
  let mag = Int64.logand b 0x7fffffffffffffffL in
  let zs = z_of_string (Int64.to_string mag) in
  if Int64.compare b 0L < 0 then Z.opp zs else zs

let parse_tbl (names : n list list) (tok : string) : (n list * z option) list =
  let cells = String.split_on_char ',' (String.sub tok 4 (String.length tok - 4)) in
  if names = [] then [] else
  List.map2 (fun nm c -> (nm, match c with "none" | "nan" -> None | h -> Some (key_of_bits h))) names cells

let is_tbl tok = String.length tok >= 4 && String.sub tok 0 4 = "f64:"

(* implementation lines are "<result> | f64:..." *)
let split_impl (i : string) : string * string option =
  match String.index_opt i '|' with
  | Some k when k >= 1 && k + 2 <= String.length i ->
    (String.sub i 0 (k - 1), Some (String.sub i (k + 2) (String.length i - k - 2)))
  | _ -> (i, None)

(* cmp / wcmp: "attr i j names [f64:...]" *)
let cmp_case line = match toks line with
  | attr :: i :: j :: names :: rest ->
    let names = dec_names names in
    let i = int_of_string i and j = int_of_string j in
    let tbl = (match rest with [t] when is_tbl t -> Some (parse_tbl names t) | _ -> None) in
    (attr_of_s attr, (n_of_small i, nth_name names i), (n_of_small j, nth_name names j), names, tbl)
  | _ -> failwith "cmp"

let cmp line =
  let (attr, x, y, _, tbl) = cmp_case line in
  match tbl with
  | None -> cmp_s (arg_cmp_dec attr x y)
  | Some t -> cmp_s (arg_cmp_tbl t attr x y)

(* the specification is evaluated with the exact decimal oracle (cmp, sort) or with the
   recorded one (wcmp, wsort); in both the recorded oracle must follow the modelled grammar *)
let cmp_check_gen recorded line =
  let (c, i) = split_sb line in
  let (attr, x, y, names, _) = cmp_case c in
  let (res, tbl) = split_impl i in
  match cmp_of_s res, tbl with
  | Some o, Some t when is_tbl t ->
    let tb = parse_tbl names t in
    if not (tbl_grammar_ok tb) then verdict false "a-name-parses-as-f64-differently-from-the-modelled-grammar"
    else
      let want = if recorded then spec_arg_cmp_tbl tb attr x y else spec_arg_cmp_dec attr x y in
      verdict (o = want) ("specified-order-is-" ^ cmp_s want)
  | _ -> verdict false ("outcome:" ^ i)

(* sort / wsort: "attr reverse names [f64:...]" *)
let sort_case line = match toks line with
  | attr :: rev :: names :: rest ->
    let names = dec_names names in
    let tbl = (match rest with [t] when is_tbl t -> Some (parse_tbl names t) | _ -> None) in
    (attr_of_s attr, bool_of_s rev, names, tbl)
  | _ -> failwith "sort"

let perm_s l = if l = [] then "ok -" else "ok " ^ list_s string_of_n l

let sort line =
  let (attr, rev, names, tbl) = sort_case line in
  match (match tbl with None -> sort_args_dec attr rev names | Some t -> sort_args_tbl t attr rev names) with
  | Ok l -> perm_s l
  | Panic p -> "panic " ^ string_of_panic p

let parse_perm s = match toks s with
  | ["ok"; "-"] -> Some []
  | ["ok"; l] -> (try Some (List.map n_of_string (String.split_on_char ',' l)) with Failure _ -> None)
  | _ -> None

let sort_check_gen recorded line =
  let (c, i) = split_sb line in
  let (attr, rev, names, _) = sort_case c in
  let (res, tbl) = split_impl i in
  match parse_perm res, tbl with
  | Some out, Some t when is_tbl t ->
    let tb = parse_tbl names t in
    if not (tbl_grammar_ok tb) then verdict false "a-name-parses-as-f64-differently-from-the-modelled-grammar"
    else
      verdict (if recorded then sort_sb_tbl tb attr rev names out else sort_sb_dec attr rev names out)
        "not-the-sorted-permutation-of-the-specified-order"
  | _ -> verdict false ("outcome:" ^ i)

(* class: "name" -> class of the name (input histogram / domain check) *)
let cls line = string_of_n (name_class (dec_name line))

(* tok: "name" -> kinds and lengths of the tokens *)
let tok line =
  let s = dec_name line in
  let ts = tokenize s in
  String.concat " " (List.map (fun (k, t) ->
    (if k then "d" else "t") ^ string_of_int (List.length t)) ts)

(* ---- tree: "attr rev item item ..." (see harness/hx-sort/src/tree.rs) ---- *)
let enc2 (l : n list) : string =
  if l = [] then "%_" else begin
    let b = Buffer.create 16 in
    List.iter (fun x ->
      let c = int_of_n x in
      let ch = Char.chr c in
      if (ch >= 'a' && ch <= 'z') || (ch >= 'A' && ch <= 'Z') || (ch >= '0' && ch <= '9') || ch = '_' || ch = '.' || ch = '-'
      then Buffer.add_char b ch else Buffer.add_string b (Printf.sprintf "%%%02X" c)) l;
    Buffer.contents b
  end

(* split a decoded byte string on "::" *)
let split_path (l : n list) : n list list =
  let s = string_of_bytes l in
  let parts = ref [] and cur = Buffer.create 8 in
  let i = ref 0 and len = String.length s in
  while !i < len do
    if !i + 1 < len && s.[!i] = ':' && s.[!i + 1] = ':' then begin
      parts := Buffer.contents cur :: !parts; Buffer.clear cur; i := !i + 2
    end else begin Buffer.add_char cur s.[!i]; incr i end
  done;
  parts := Buffer.contents cur :: !parts;
  List.rev_map bytes_of_string !parts

type item = {
  is_group : bool; rank : int; modpath : n list; disp : n list; raw : n list;
  iloc : n list * (n * n); iargs : n list list option;
  types : n list list; consts : (int * (z * n list) list) option }

let split_once c s = match String.index_opt s c with
  | Some i -> (String.sub s 0 i, String.sub s (i + 1) (String.length s - i - 1))
  | None -> failwith ("split_once " ^ s)

let parse_item tok =
  match String.split_on_char ';' tok with
  | [k; rank; mp; disp; raw; file; line; col; extra] ->
    let is_group = (k = "G") in
    let iargs = ref None and types = ref [] and consts = ref None in
    if extra <> "-" then begin
      if is_group then
        List.iter (fun part ->
          if String.length part > 2 && String.sub part 0 2 = "t:" then
            types := List.map (fun t -> dec_name (snd (split_once '=' t)))
                       (String.split_on_char ',' (String.sub part 2 (String.length part - 2)))
          else if String.length part > 2 && String.sub part 0 2 = "c:" then begin
            let (kd, vs) = split_once ':' (String.sub part 2 (String.length part - 2)) in
            let tag = match kd with "i" -> 0 | "c" -> 1 | "b" -> 2 | "j" -> 3 | "k" -> 4 | _ -> failwith "const kind" in
            consts := Some (tag, List.map (fun t -> let (x, nm) = split_once '=' t in (z_of_string x, dec_name nm))
                                   (String.split_on_char ',' vs))
          end) (String.split_on_char '!' extra)
      else iargs := Some (dec_names (snd (split_once '=' extra)))
    end;
    { is_group; rank = int_of_string rank; modpath = dec_name mp; disp = dec_name disp; raw = dec_name raw;
      iloc = (dec_name file, (n_of_string line, n_of_string col)); iargs = !iargs; types = !types; consts = !consts }
  | _ -> failwith "item"

let tree_case line =
  match toks line with
  | attr :: rev :: rest ->
    let (drop, items) = (match rest with
      | flt :: items when String.length flt >= 2 && String.sub flt 0 2 = "F:" ->
        let t = String.sub flt 2 (String.length flt - 2) in
        ((if t = "-" then None else Some (string_of_bytes (dec_name t))), items)
      | items -> (None, items)) in
    let items = List.map parse_item (List.filter (fun t -> t <> "") items) in
    (attr_of_s attr, bool_of_s rev, drop, items)
  | _ -> failwith "tree"

let second_sort attr rev =
  ((match attr with SKind -> SName | SName -> SKind | SLocation -> SName), not rev)

let contains (hay : string) (needle : string) : bool =
  let n = String.length needle and h = String.length hay in
  let rec go i = i + n <= h && (String.sub hay i n = needle || go (i + 1)) in
  go 0

(* EntryTree::retain with the filter "path does not contain <text>" (not part of C16's claim:
   only here so that model and implementation sort the same tree) *)
let rec retain (keep : string -> bool) (parent : string) (ts : tree list) : tree list =
  List.filter_map (fun t ->
    let dn = string_of_bytes (display_name t) in
    let path = if parent = "" then dn else parent ^ "::" ^ dn in
    match t with
    | Parent (r, g, ch) ->
      let ch' = retain keep path ch in
      if ch' = [] then None else Some (Parent (r, g, ch'))
    | Leaf (_, _, _, _, None) -> if keep path then Some t else None
    | Leaf (a, n, c, l, Some args) ->
      let args' = List.filter (fun arg -> keep (path ^ "::" ^ string_of_bytes arg)) args in
      if args' = [] then None else Some (Leaf (a, n, c, l, Some args'))) ts

let retained drop forest =
  match drop with
  | None -> forest
  | Some t -> retain (fun p -> not (contains p t)) "" forest

(* the unsorted forest, built like tree_dump does *)
let build_forest items =
  let forest = ref [] in
  List.iter (fun it -> if not it.is_group then
    forest := insert_entry (split_path it.modpath)
                (Leaf (n_of_small it.rank, it.disp, None, it.iloc, it.iargs)) !forest) items;
  let next = ref 100000 in
  List.iter (fun it -> if it.is_group then begin
    let base = split_path it.modpath @ [it.raw] in
    let add path name cst =
      incr next;
      forest := insert_entry path (Leaf (n_of_small !next, name, cst, it.iloc, None)) !forest in
    match it.types, it.consts with
    | [], None -> ()
    | ts, None -> List.iter (fun t -> add base t None) ts
    | [], Some (tag, vs) -> List.iter (fun (x, nm) -> add base nm (Some (n_of_small tag, x))) vs
    | ts, Some (tag, vs) ->
      List.iter (fun t -> List.iter (fun (x, nm) -> add (base @ [t]) nm (Some (n_of_small tag, x))) vs) ts
  end) items;
  List.iter (fun it -> if it.is_group then
    forest := insert_group (split_path it.modpath) it.raw ((n_of_small it.rank, it.disp), it.iloc) !forest) items;
  !forest

let dump_s forest =
  let rows = dump_forest forest in
  if rows = [] then "-" else
  String.concat " " (List.map (fun (((d, k), name), args) ->
    let ks = (match int_of_n k with 0 -> "L" | 1 -> "P" | _ -> "G") in
    string_of_n d ^ ":" ^ ks ^ ":" ^ enc2 name ^
    (match args with
     | None -> ""
     | Some [] -> ":a:%0"
     | Some l -> ":a:" ^ String.concat "," (List.map enc2 l))) rows)

let sorted_dump attr rev forest =
  match sort_forest_dec attr rev forest with
  | Ok f -> dump_s f
  | Panic p -> "panic " ^ string_of_panic p

let tree line =
  let (attr, rev, drop, items) = tree_case line in
  let forest = retained drop (build_forest items) in
  let (attr2, rev2) = second_sort attr rev in
  sorted_dump attr rev forest ^ " || " ^ sorted_dump attr2 rev2 forest

(* parse the implementation's dump back into nodes and lay it over the unsorted forest *)
type dnode = { dk : string; dname : n list; dargs : n list list option; mutable dch : dnode list }

let parse_dump (s : string) : dnode list =
  if s = "-" then [] else begin
    let rows = List.map (fun tok ->
      match String.split_on_char ':' tok with
      | [d; k; nm] -> (int_of_string d, { dk = k; dname = dec_name nm; dargs = None; dch = [] })
      | [d; k; nm; "a"; args] -> (int_of_string d, { dk = k; dname = dec_name nm; dargs = Some (dec_names args); dch = [] })
      | _ -> failwith "dump row") (String.split_on_char ' ' s) in
    (* build by depth using a stack *)
    let roots = ref [] in
    let stack : (int * dnode) list ref = ref [] in
    List.iter (fun (d, nd) ->
      while (match !stack with (d', _) :: _ when d' >= d -> true | _ -> false) do stack := List.tl !stack done;
      (match !stack with
       | (_, p) :: _ -> p.dch <- p.dch @ [nd]
       | [] -> roots := !roots @ [nd]);
      stack := (d, nd) :: !stack) rows;
    !roots
  end

exception Mismatch of string

let rec overlay (orig : tree list) (out : dnode list) : tree list =
  let used = Array.make (List.length orig) false in
  let origa = Array.of_list orig in
  if List.length orig <> List.length out then raise (Mismatch "sibling-count-differs");
  List.map (fun nd ->
    let found = ref None in
    Array.iteri (fun i t ->
      if !found = None && not used.(i) then
        match t, nd.dk with
        | Leaf (a, n, c, l, g), "L" when n = nd.dname && (g = None) = (nd.dargs = None) -> found := Some i
        | Parent (_, g, _), ("P" | "G") when display_name t = nd.dname && (g <> None) = (nd.dk = "G") -> found := Some i
        | _ -> ()) origa;
    match !found with
    | None -> raise (Mismatch "entry-lost-duplicated-or-moved")
    | Some i ->
      used.(i) <- true;
      (match origa.(i) with
       | Leaf (a, n, c, l, _) -> Leaf (a, n, c, l, nd.dargs)
       | Parent (r, g, ch) -> Parent (r, g, overlay ch nd.dch))) out

let split_two (i : string) : (string * string) option =
  let sep = " || " in
  let n = String.length sep and h = String.length i in
  let rec go k = if k + n > h then None else if String.sub i k n = sep then Some k else go (k + 1) in
  match go 0 with
  | Some k -> Some (String.sub i 0 k, String.sub i (k + n) (h - k - n))
  | None -> None

let tree_check line =
  let (c, i) = split_sb line in
  let (attr, rev, drop, items) = tree_case c in
  match split_two i with
  | None -> verdict false ("outcome:" ^ i)
  | Some (d1, d2) ->
    let orig = retained drop (build_forest items) in
    let (attr2, rev2) = second_sort attr rev in
    let part which a r d =
      if String.length d >= 5 && String.sub d 0 5 = "panic" then Some ("outcome:" ^ d)
      else match (try Ok (overlay orig (parse_dump d)) with Mismatch _ -> Panic Other | Failure _ -> Panic Other) with
        | Ok out -> if forest_sb_dec a r orig out then None
                    else Some (which ^ "-sort:siblings-or-arguments-not-in-the-specified-order")
        | Panic _ -> Some (which ^ "-sort:entry-lost-duplicated-or-moved-to-another-parent") in
    (match part "first" attr rev d1 with
     | Some why -> verdict false why
     | None -> (match part "second" attr2 rev2 d2 with
                | Some why -> verdict false why
                | None -> verdict true ""))

(* ---- e2e: the real registry listed by the real Divan::main(); model input "attr rev items...",
   implementation line "<items> => <depth:name ...>" (the listing shows no arguments) ---- *)
let rec strip_args (t : tree) : tree =
  match t with
  | Leaf (a, n, c, l, _) -> Leaf (a, n, c, l, None)
  | Parent (r, g, ch) -> Parent (r, g, List.map strip_args ch)

let names_s forest =
  let rows = dump_forest forest in
  String.concat " " (List.map (fun (((d, _), name), _) -> string_of_n d ^ ":" ^ enc2 name) rows)

let split_arrow (i : string) : (string * string) option =
  let sep = " => " in
  let n = String.length sep and h = String.length i in
  let rec go k = if k + n > h then None else if String.sub i k n = sep then Some k else go (k + 1) in
  match go 0 with
  | Some k -> Some (String.sub i 0 k, String.sub i (k + n) (h - k - n))
  | None -> None

(* the optional "cl:..." / "ev:..." token (command line / environment actually used) is for the harness only *)
let drop_cl line =
  String.concat " " (List.filter (fun t -> not (String.length t >= 3 && (String.sub t 0 3 = "cl:" || String.sub t 0 3 = "ev:"))) (toks line))

let e2e line =
  let (attr, rev, drop, items) = tree_case (drop_cl line) in
  let forest = List.map strip_args (retained drop (build_forest items)) in
  match sort_forest_dec attr rev forest with
  | Ok f -> names_s f
  | Panic p -> "panic " ^ string_of_panic p

let parse_names (s : string) : dnode list =
  let rows = List.map (fun tok ->
    match String.split_on_char ':' tok with
    | [d; nm] -> (int_of_string d, { dk = "?"; dname = dec_name nm; dargs = None; dch = [] })
    | _ -> failwith "names row") (List.filter (fun t -> t <> "") (String.split_on_char ' ' s)) in
  let roots = ref [] in
  let stack : (int * dnode) list ref = ref [] in
  List.iter (fun (d, nd) ->
    while (match !stack with (d', _) :: _ when d' >= d -> true | _ -> false) do stack := List.tl !stack done;
    (match !stack with
     | (_, p) :: _ -> p.dch <- p.dch @ [nd]
     | [] -> roots := !roots @ [nd]);
    stack := (d, nd) :: !stack) rows;
  !roots

let rec overlay_names (orig : tree list) (out : dnode list) : tree list =
  let used = Array.make (List.length orig) false in
  let origa = Array.of_list orig in
  if List.length orig <> List.length out then raise (Mismatch "sibling-count-differs");
  List.map (fun nd ->
    let found = ref None in
    Array.iteri (fun i t ->
      if !found = None && not used.(i) then
        match t with
        | Leaf (_, n, _, _, _) when n = nd.dname && nd.dch = [] -> found := Some i
        | Parent (_, _, _) when display_name t = nd.dname && nd.dch <> [] -> found := Some i
        | _ -> ()) origa;
    match !found with
    | None -> raise (Mismatch "entry-lost-duplicated-or-moved")
    | Some i ->
      used.(i) <- true;
      (match origa.(i) with
       | Leaf (a, n, c, l, g) -> Leaf (a, n, c, l, g)
       | Parent (r, g, ch) -> Parent (r, g, overlay_names ch nd.dch))) out

let e2e_check line =
  let (c, i) = split_sb line in
  match split_arrow i with
  | None -> verdict false ("outcome:" ^ i)
  | Some (items, listing) ->
    let (attr, rev, drop, items) = tree_case (drop_cl c ^ " " ^ items) in
    let orig = List.map strip_args (retained drop (build_forest items)) in
    (match (try Ok (overlay_names orig (parse_names listing)) with Mismatch _ -> Panic Other | Failure _ -> Panic Other) with
     | Ok out -> verdict (forest_sb_dec attr rev orig out) "listed-siblings-not-in-the-specified-order"
     | Panic _ -> verdict false "entry-lost-duplicated-or-moved-to-another-parent")

(* ---- e2erun: which declared argument each row received under --test; model input
   "attr rev bench names", implementation line "ok <positions> | f64:... | names:<labels>":
   checked exactly like the sort mode (a value received twice or never is not a permutation) ---- *)
let e2erun line =
  match toks line with
  | [attr; rev; _; names] -> sort (attr ^ " " ^ rev ^ " " ^ names)
  | _ -> failwith "e2erun"

let e2erun_check line =
  let (c, i) = split_sb line in
  match toks c, String.index_opt i 'n' with
  | attr :: rev :: _, _ ->
    let marker = " | names:" in
    let n = String.length marker and h = String.length i in
    let rec go k = if k + n > h then None else if String.sub i k n = marker then Some k else go (k + 1) in
    (match go 0 with
     | Some k ->
       let names = String.sub i (k + n) (h - k - n) in
       sort_check_gen false (attr ^ " " ^ rev ^ " " ^ names ^ "\t" ^ String.sub i 0 k)
     | None -> verdict false ("outcome:" ^ i))
  | _ -> failwith "e2erun.sb"

let dispatch mode line =
  match mode with
  | "nat" -> nat line
  | "nat.sb" -> nat_check line
  | "cmp" | "wcmp" -> cmp line
  | "cmp.sb" -> cmp_check_gen false line
  | "wcmp.sb" -> cmp_check_gen true line
  | "sort" | "wsort" -> sort line
  | "sort.sb" -> sort_check_gen false line
  | "wsort.sb" -> sort_check_gen true line
  | "tree" -> tree line
  | "tree.sb" -> tree_check line
  | "e2e" -> e2e line
  | "e2e.sb" -> e2e_check line
  | "e2erun" -> e2erun line
  | "e2erun.sb" -> e2erun_check line
  | "class" -> cls line
  | "tok" -> tok line
  | _ -> failwith ("unknown mode " ^ mode)

let () = main dispatch
