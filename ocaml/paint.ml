(* ---- C20: the painted tree ---- *)

(* UTF-8 <-> code points *)
let cps_of_utf8 (s : string) : n list =
  let n = String.length s in
  let rec go i acc =
    if i >= n then List.rev acc
    else
      let c = Char.code s.[i] in
      let cont k = Char.code s.[i + k] land 0x3f in
      if c < 0x80 then go (i + 1) (n_of_small c :: acc)
      else if c < 0xe0 then go (i + 2) (n_of_small (((c land 0x1f) lsl 6) lor cont 1) :: acc)
      else if c < 0xf0 then go (i + 3) (n_of_small (((c land 0x0f) lsl 12) lor (cont 1 lsl 6) lor cont 2) :: acc)
      else go (i + 4) (n_of_small (((c land 0x07) lsl 18) lor (cont 1 lsl 12) lor (cont 2 lsl 6) lor cont 3) :: acc)
  in
  go 0 []

let utf8_of_cps (l : n list) : string =
  let b = Buffer.create 256 in
  List.iter (fun x -> Buffer.add_utf_8_uchar b (Uchar.of_int (int_of_n x))) l;
  Buffer.contents b

let unesc (s : string) : string =
  let b = Buffer.create (String.length s) in
  let n = String.length s in
  let i = ref 0 in
  while !i < n do
    if s.[!i] = '\\' && !i + 1 < n then begin
      (match s.[!i + 1] with
       | '\\' -> Buffer.add_char b '\\' | 'n' -> Buffer.add_char b '\n' | 't' -> Buffer.add_char b '\t'
       | 'r' -> Buffer.add_char b '\r' | 's' -> Buffer.add_char b ' ' | 'c' -> Buffer.add_char b ','
       | 'm' -> Buffer.add_char b ';' | 'o' -> Buffer.add_char b ':' | 'f' -> Buffer.add_char b '/'
       | 'p' -> Buffer.add_char b '|' | 'a' -> Buffer.add_char b '@'
       | c -> failwith "unesc");
      i := !i + 2
    end else begin Buffer.add_char b s.[!i]; incr i end
  done;
  Buffer.contents b

let esc (s : string) : string =
  let b = Buffer.create (String.length s + 16) in
  String.iter (fun c -> match c with
    | '\\' -> Buffer.add_string b "\\\\" | '\n' -> Buffer.add_string b "\\n" | '\t' -> Buffer.add_string b "\\t"
    | '\r' -> Buffer.add_string b "\\r" | ' ' -> Buffer.add_string b "\\s" | ',' -> Buffer.add_string b "\\c"
    | ';' -> Buffer.add_string b "\\m" | ':' -> Buffer.add_string b "\\o" | '/' -> Buffer.add_string b "\\f"
    | '|' -> Buffer.add_string b "\\p" | '@' -> Buffer.add_string b "\\a"
    | c -> Buffer.add_char b c) s;
  Buffer.contents b

let pct_decode (tok : string) : n list =
  if String.length tok = 0 || tok.[0] <> '~' then failwith ("name token " ^ tok);
  let b = Buffer.create 16 in
  let n = String.length tok in
  let i = ref 1 in
  while !i < n do
    if tok.[!i] = '%' then begin
      Buffer.add_char b (Char.chr (int_of_string ("0x" ^ String.sub tok (!i + 1) 2))); i := !i + 3
    end else begin Buffer.add_char b tok.[!i]; incr i end
  done;
  cps_of_utf8 (Buffer.contents b)

(* run records: "id:arg:did:n:body" *)
let split c s = String.split_on_char c s

let row_of (s : string) : n list list = List.map (fun c -> cps_of_utf8 (unesc c)) (split ',' s)

let empty_cells = { time_row = []; counter_rows = []; max_alloc = None; tallies = [] }

let cells_of_body (body : string) : stats_cells =
  if body = "-" then empty_cells
  else match split '|' body with
    | [main; mx; ts] ->
      (match split ';' main with
       | time :: counters ->
         let max_alloc = (match split ';' mx with
             | [a; b] -> Some (row_of a, row_of b)
             | _ -> None) in
         let tallies = if ts = "" then [] else
             List.map (fun e -> match split ';' e with
                 | [h; a; b] -> ((cps_of_utf8 (unesc h), row_of a), row_of b)
                 | _ -> failwith "tally") (split '/' ts) in
         { time_row = row_of time; counter_rows = List.map row_of counters; max_alloc; tallies }
       | [] -> failwith "cells")
    | _ -> failwith "body"

type rec_run = { rid : n; rarg : int option; rrun : run }

(* the first token "P=<n>" is the machine's parallelism as probed by the harness *)
let par_of_runs (s : string) : n =
  match List.filter (fun x -> String.length x > 2 && String.sub x 0 2 = "P=") (split ' ' s) with
  | p :: _ -> n_of_string (String.sub p 2 (String.length p - 2))
  | [] -> n_of_small 1

let parse_runs (s : string) : rec_run list option =
  let s = String.concat " " (List.filter (fun x -> not (String.length x > 2 && String.sub x 0 2 = "P=")) (split ' ' s)) in
  if s = "?" then None
  else if s = "" then Some []
  else Some (List.map (fun r ->
      match split ':' r with
      | [id; arg; did; _n; body] ->
        { rid = n_of_string id; rarg = (if arg = "-" then None else Some (int_of_string arg));
          rrun = { did_run = (did = "1"); cells = cells_of_body body } }
      | _ -> failwith ("run record " ^ r)) (List.filter (fun x -> x <> "") (split ' ' s)))

(* case -> (action, filtered tree, remap); [runs] feeds the outcomes.
   The case lists the registered tree; an optional trailing section
   "D <k> <id | id:argindex>..." names the leaves the case's filters remove
   (computed by the generator by evaluating the filters on every display path).
   The model takes the tree after [EntryTree::retain]: dropped leaves and
   argument cases are removed, then benchmarks without argument cases and
   groups without children.  [remap id i] is the declared index of the i-th
   surviving argument case. *)
let parse_case (par : n) (case : string) (runs : rec_run list) : action * node list * (n -> int -> int) =
  let tbl : (string, run list) Hashtbl.t = Hashtbl.create 64 in
  let key id arg = string_of_n id ^ ":" ^ (match arg with None -> "-" | Some a -> string_of_int a) in
  List.iter (fun r ->
      let k = key r.rid r.rarg in
      let old = try Hashtbl.find tbl k with Not_found -> [] in
      Hashtbl.replace tbl k (old @ [r.rrun])) runs;
  let toks = Array.of_list (split ' ' case) in
  let drops : (string, unit) Hashtbl.t = Hashtbl.create 8 in
  Array.iteri (fun i t ->
      if t = "D" then begin
        let k = int_of_string toks.(i + 1) in
        for j = 1 to k do Hashtbl.replace drops toks.(i + 1 + j) () done
      end) toks;
  (* raw thread lists ("P" = the machine's parallelism), normalised by the extracted model of
     run_bench_entry: 0 -> parallelism, then sort, then dedup *)
  let raw_threads th = List.map (fun x -> if x = "P" then par else n_of_string x) (split ',' th) in
  let cli_threads = ref None in
  Array.iteri (fun i t -> if t = "T" then cli_threads := Some (raw_threads toks.(i + 1))) toks;
  (* "S r" / "S R": --sortr location / DIVAN_SORTR=location: the order of the case reversed at every level,
     argument cases included (thread-count branches stay ascending) *)
  let reversed = ref false in
  Array.iteri (fun i t -> if t = "S" && (toks.(i + 1) = "r" || toks.(i + 1) = "R") then reversed := true) toks;
  let ord l = if !reversed then List.rev l else l in
  let kept_tbl : (string, int array) Hashtbl.t = Hashtbl.create 16 in
  let pos = ref 0 in
  let next () = let t = toks.(!pos) in incr pos; t in
  let action = match next () with "bench" -> ABench | "test" -> ATest | "list" -> AList | a -> failwith ("action " ^ a) in
  let _prof = next () in
  let sc_of s = match s with "-" | "o" -> None | "d" -> Some None | k -> Some (Some (n_of_string k)) in
  (* [inh]: some enclosing group sets ignore = true ("<sc>!"); a benchmark's own token decides first:
     "1" = ignore, "f" = ignore = false, "0" = unset: the innermost set value wins *)
  let rec node (inh : bool) : node option =
    match next () with
    | "G" ->
      let name = pct_decode (next ()) in
      let sct = next () in
      let gi = String.length sct > 0 && sct.[String.length sct - 1] = '!' in
      let sc = sc_of (if gi then String.sub sct 0 (String.length sct - 1) else sct) in
      let k = int_of_string (next ()) in
      let kids = List.init k (fun _ -> ()) |> List.map (fun () -> node (inh || gi)) |> List.filter_map (fun x -> x) in
      if kids = [] then None else Some (Group (name, sc, ord kids))
    | "B" ->
      let ids = next () in
      let id = n_of_string ids in
      let name = pct_decode (next ()) in
      let sc = sc_of (next ()) in
      let ign = (match next () with "1" -> true | "f" -> false | _ -> inh) in
      let a = next () in
      let args_all = if a = "P" then None else begin
          let k = int_of_string (String.sub a 1 (String.length a - 1)) in
          Some (List.map (fun () -> pct_decode (next ())) (List.init k (fun _ -> ())))
        end in
      let th = next () in
      let raw = (match !cli_threads with
          | Some l when action <> AList -> l      (* runtime options override the entry's *)
          | _ -> if th = "-" then [] else raw_threads th) in
      let threads = norm_threads par raw in
      let _beh = next () in
      (match args_all with
       | None ->
         if Hashtbl.mem drops ids then None
         else begin
           let out (_ : nat) (j : nat) : run =
             let l = try Hashtbl.find tbl (key id None) with Not_found -> [] in
             match List.nth_opt l (int_of_nat j) with
             | Some r -> r
             | None -> { did_run = false; cells = empty_cells } in
           Some (Bench (id, name, sc, ign, None, threads, out))
         end
       | Some names ->
         let indexed = List.mapi (fun i nm -> (i, nm)) names in
         let kept = ord (List.filter (fun (i, _) -> not (Hashtbl.mem drops (ids ^ ":" ^ string_of_int i))) indexed) in
         if kept = [] then None
         else begin
           let karr = Array.of_list (List.map fst kept) in
           Hashtbl.replace kept_tbl ids karr;
           let out (i : nat) (j : nat) : run =
             let ii = int_of_nat i in
             let arg = if ii < Array.length karr then Some karr.(ii) else Some (-1) in
             let l = try Hashtbl.find tbl (key id arg) with Not_found -> [] in
             match List.nth_opt l (int_of_nat j) with
             | Some r -> r
             | None -> { did_run = false; cells = empty_cells } in
           Some (Bench (id, name, sc, ign, Some (List.map snd kept), threads, out))
         end)
    | k -> failwith ("node kind " ^ k) in
  if next () <> "N" then failwith "N";
  let k = int_of_string (next ()) in
  let t = ord (List.filter_map (fun x -> x) (List.map (fun () -> node false) (List.init k (fun _ -> ())))) in
  let remap id i =
    match Hashtbl.find_opt kept_tbl (string_of_n id) with
    | Some karr when i < Array.length karr -> karr.(i)
    | _ -> i in
  (action, t, remap)

(* model input: "case @@ runs" *)
let split_at_marker (s : string) : string * string =
  let m = " @@ " in
  let n = String.length s and k = String.length m in
  let rec find i = if i + k > n then None else if String.sub s i k = m then Some i else find (i + 1) in
  match find 0 with
  | Some i -> (String.sub s 0 i, String.sub s (i + k) (n - i - k))
  | None -> (s, "?")

let tree_mode line =
  let (case, runs) = split_at_marker line in
  match parse_runs runs with
  | None -> "no-run-records"
  | Some rs ->
    let (a, t, _) = parse_case (par_of_runs runs) case rs in
    (match paint a t with
     | Ok (_, out) -> "ok " ^ esc (utf8_of_cps out)
     | Panic p -> "panic " ^ string_of_panic p)

let tree_check line =
  let (case, impl) = split_sb line in
  let (head, runs) = split_at_marker impl in
  match toks head, parse_runs runs with
  | ["ok"; text], Some rs ->
    let (a, t, remap) = parse_case (par_of_runs runs) case rs in
    let out = cps_of_utf8 (unesc text) in
    let inv_model = List.map (fun ((id, arg), _tc) -> (id, (match arg with None -> None | Some i -> Some (remap id (int_of_nat i))))) (all_calls a t) in
    let inv_impl = List.map (fun r -> (r.rid, r.rarg)) rs in
    if inv_model <> inv_impl then verdict false "benchmark-calls-differ-from-the-tree(ignored-or-listed-benchmark-run,or-a-case-missing)"
    else if not (paint_sb a t out) then
      (match parse out with
       | None -> verdict false "stdout-does-not-parse-as-a-tree(indentation/glyph/bar/row-attachment)"
       | Some _ -> verdict false "parsed-tree-differs-from-what-ran(names/order/cells/rows)")
    else verdict true ""
  | _, _ -> verdict false ("outcome:" ^ (if String.length head > 60 then String.sub head 0 60 else head))

let dispatch mode line =
  match mode with
  | "tree" -> tree_mode line
  | "tree.sb" -> tree_check line
  | _ -> failwith ("unknown mode " ^ mode)

let () = main dispatch
