(* ---- C05: driver of the extracted statistics model (Model/Stats.v) ----
   Case line (same as harness/hx-stats):
     <sample_size> <d0,d1,..|-> <alloc entries|-> <k0>|<k1>|<k2>|<k3> <uuuu>
   Modes:
     stats / stats_rel      input = case \t impl_line.  The model takes the sorted view of the samples as an
                            argument (sort_unstable may order tied samples in any way): the driver searches, among
                            the views that differ in which of the tied samples sit at the observed positions (first,
                            last, middle), one whose model output matches the implementation's line, checks it with
                            the extracted [admissibleb], and prints the model's output for it (for the stable order
                            if none matches, which then shows up as a disagreement).
     stats.sb / stats_rel.sb   the extracted [stats_sb] on the parsed implementation output.
     run / run_rel (.sb)    real Bencher runs: the harness prints the samples the run recorded and the statistics
                            computed from them; model and specification are driven by the recording.
     periter(.sb)           the stored per-input counter value. *)

let split_on c s = if s = "" then [] else String.split_on_char c s
let nlist s = if s = "-" || s = "" then [] else List.map n_of_string (String.split_on_char ',' s)

let parse_case line : inputs =
  match toks line with
  | [s; d; a; c; u] ->
    let allocs =
      if a = "-" then []
      else
        List.map (fun e ->
            match List.map n_of_string (String.split_on_char ':' e) with
            | [i; mc; ms; gc; gs; sc; ss; ac; as_; dc; ds] ->
              (i, { ai_grow = { t_count = gc; t_size = gs }; ai_shrink = { t_count = sc; t_size = ss };
                    ai_alloc = { t_count = ac; t_size = as_ }; ai_dealloc = { t_count = dc; t_size = ds };
                    ai_max_count = mc; ai_max_size = ms })
            | _ -> failwith "alloc entry")
          (String.split_on_char ';' a) in
    let ks = String.split_on_char '|' c in
    if List.length ks <> 4 || String.length u <> 4 then failwith "counters";
    let counters = List.mapi (fun i k -> { ci_counts = nlist k; ci_input = (u.[i] = '1') }) ks in
    { in_size = n_of_string s; in_durs = nlist d; in_allocs = allocs; in_counters = counters }
  | _ -> failwith "case"

(* ---- printing the model's stats ---- *)
let xq_s = function
  | Fin (a, b) -> string_of_n a ^ "/" ^ string_of_n b
  | Inf -> "inf"
  | NaN -> "nan"

let set_s f s = String.concat "," [f s.fastest; f s.slowest; f s.median; f s.mean]

let stats_s (st : stats) =
  let names = ["g"; "s"; "a"; "d"] in
  let tl = List.map2 (fun nm (c, z) -> " " ^ nm ^ "=" ^ set_s xq_s c ^ ";" ^ set_s xq_s z) names st.st_tallies in
  "ok sc=" ^ string_of_n st.st_sample_count ^ " ic=" ^ string_of_n st.st_iter_count
  ^ " t=" ^ set_s string_of_n st.st_time
  ^ " mac=" ^ set_s xq_s st.st_max_count ^ " mas=" ^ set_s xq_s st.st_max_size
  ^ String.concat "" tl
  ^ " c=" ^ String.concat "|" (List.map (function None -> "none" | Some s -> set_s string_of_n s) st.st_counts)

let res_stats_s = function Ok st -> stats_s st | Panic p -> "panic " ^ string_of_panic p

(* ---- parsing the implementation's line ---- *)
let rec pow2 k = if k = 0 then n_of_small 1 else N.mul (n_of_small 2) (pow2 (k - 1))

(* "<mantissa>:<exp2>" | inf | nan  ->  exact xq; negative values do not occur *)
let xq_of_impl s =
  if s = "nan" then NaN
  else if s = "inf" then Inf
  else if String.length s > 0 && s.[0] = '-' then failwith ("negative float " ^ s)
  else
    match String.split_on_char ':' s with
    | [m; e] ->
      let m = n_of_string m and e = int_of_string e in
      if e >= 0 then Fin (N.mul m (pow2 e), n_of_small 1) else Fin (m, pow2 (-e))
    | _ -> failwith ("float " ^ s)

let set_of f s =
  match String.split_on_char ',' s with
  | [a; b; c; d] -> { fastest = f a; slowest = f b; median = f c; mean = f d }
  | _ -> failwith ("set " ^ s)

let field key tok =
  let k = key ^ "=" in
  let lk = String.length k in
  if String.length tok >= lk && String.sub tok 0 lk = k then String.sub tok lk (String.length tok - lk)
  else failwith ("expected " ^ key)

let parse_impl line : stats res option =
  match toks line with
  | ["panic"; "DivByZero"] -> Some (Panic DivByZero)
  | ["panic"; "Overflow"] -> Some (Panic Overflow)
  | ["panic"; "OutOfBounds"] -> Some (Panic OutOfBounds)
  | ["panic"; "UnwrapNone"] -> Some (Panic UnwrapNone)
  | "panic" :: _ -> Some (Panic Other)
  | ["ok"; sc; ic; t; mac; mas; g; s; a; d; c] ->
    let pair key tok =
      match String.split_on_char ';' (field key tok) with
      | [x; y] -> (set_of xq_of_impl x, set_of xq_of_impl y)
      | _ -> failwith "tally pair" in
    Some (Ok { st_sample_count = n_of_string (field "sc" sc); st_iter_count = n_of_string (field "ic" ic);
               st_time = set_of n_of_string (field "t" t);
               st_max_count = set_of xq_of_impl (field "mac" mac); st_max_size = set_of xq_of_impl (field "mas" mas);
               st_tallies = [pair "g" g; pair "s" s; pair "a" a; pair "d" d];
               st_counts = List.map (fun k -> if k = "none" then None else Some (set_of n_of_string k))
                   (String.split_on_char '|' (field "c" c)) })
  | _ -> None     (* crash or anything else *)

(* ---- search for the sorted view the implementation used (untrusted; the result is checked by admissibleb) ---- *)
let cmp_n a b = match N.compare a b with Lt -> -1 | Eq -> 0 | Gt -> 1

(* does column [sel] of the model's stats equal the implementation's? *)
let column_matches selq seln (m : stats) (i : stats) =
  seln m.st_time = seln i.st_time
  && List.for_all2 (fun x y -> xq_close x y) (column_of selq i) (column_of selq m)
  && List.length m.st_counts = List.length i.st_counts
  && List.for_all2 (fun a b -> match a, b with
      | Some x, Some y -> seln x = seln y
      | _ -> true   (* whether a kind is reported depends on all observed positions: checked jointly below *)
    ) m.st_counts i.st_counts

let full_match (m : stats) (i : stats) =
  column_matches (fun s -> s.fastest) (fun s -> s.fastest) m i
  && column_matches (fun s -> s.slowest) (fun s -> s.slowest) m i
  && column_matches (fun s -> s.median) (fun s -> s.median) m i
  && List.for_all2 (fun a b -> (a = None) = (b = None)) m.st_counts i.st_counts

(* place the assigned elements at their positions, fill the rest in base order *)
let build_sv (base : (n * n) array) (assign : (int * (n * n)) list) =
  let used = List.map snd assign in
  let rest = ref (List.filter (fun e -> not (List.mem e used)) (Array.to_list base)) in
  List.init (Array.length base) (fun p ->
      match List.assoc_opt p assign with
      | Some e -> e
      | None -> (match !rest with x :: r -> rest := r; x | [] -> failwith "build_sv"))

let consistent (assign : (int * (n * n)) list) =
  let rec go = function
    | [] -> true
    | (p, e) :: r ->
      List.for_all (fun (p', e') -> if p = p' then e = e' else e <> e') r && go r in
  go assign

let dedup_assign assign =
  List.fold_left (fun acc (p, e) -> if List.mem_assoc p acc then acc else (p, e) :: acc) [] assign

let find_view dbg (inp : inputs) (impl : stats) : (n * n) list =
  let base = Array.of_list (List.stable_sort (fun (_, a) (_, b) -> cmp_n a b) (indexed inp.in_durs)) in
  let n = Array.length base in
  if n = 0 then []
  else begin
    let cands p = List.filter (fun (_, d) -> d = snd base.(p)) (Array.to_list base) in
    let run assign = compute_stats true dbg (build_sv base assign) inp in
    let ok_col selq seln assign =
      match run assign with Ok m -> column_matches selq seln m impl | Panic _ -> false in
    let fs = List.filter (fun e -> ok_col (fun s -> s.fastest) (fun s -> s.fastest) [(0, e)]) (cands 0) in
    let ls = List.filter (fun e -> ok_col (fun s -> s.slowest) (fun s -> s.slowest) [(n - 1, e)]) (cands (n - 1)) in
    let ms =
      if n mod 2 = 1 then
        List.filter_map (fun e ->
            let a = [(n / 2, e)] in
            if ok_col (fun s -> s.median) (fun s -> s.median) a then Some a else None) (cands (n / 2))
      else
        List.concat_map (fun e1 ->
            List.filter_map (fun e2 ->
                if e1 = e2 then None
                else
                  let a = [(n / 2 - 1, e1); (n / 2, e2)] in
                  if ok_col (fun s -> s.median) (fun s -> s.median) a then Some a else None)
              (cands (n / 2)))
          (cands (n / 2 - 1)) in
    let found = ref None in
    (try
       List.iter (fun f -> List.iter (fun l -> List.iter (fun m ->
           let a = [(0, f); (n - 1, l)] @ m in
           if consistent a then begin
             let a = dedup_assign a in
             match run a with
             | Ok mo when full_match mo impl -> found := Some a; raise Exit
             | _ -> ()
           end) ms) ls) fs
     with Exit -> ());
    match !found with
    | Some a -> build_sv base a
    | None -> Array.to_list base
  end

let stats_mode dbg line =
  let (c, i) = split_sb line in
  let inp = parse_case c in
  let sv =
    match parse_impl i with
    | Some (Ok impl) -> find_view dbg inp impl
    | _ -> List.stable_sort (fun (_, a) (_, b) -> cmp_n a b) (indexed inp.in_durs) in
  if not (admissibleb inp.in_durs sv) then "driver-error view-not-admissible"
  else res_stats_s (compute_stats true dbg sv inp)

let stats_check line =
  let (c, i) = split_sb line in
  let inp = parse_case c in
  match parse_impl i with
  | None -> verdict false ("outcome:" ^ i)
  | Some r ->
    let why = int_of_n (stats_sb_why inp r) in
    verdict (stats_sb inp r)
      (List.nth ["?"; "panicked"; "time-figures-not-the-order-statistics"; "non-finite-field"; "counter-presence";
                 "means"; "provenance-column-not-from-one-sample"] why)

(* ---- real runs: the harness prints
        "IN <recorded samples as a stats case> EXP <e0>|<e1>|<e2>|<e3> TAL <rows of sample 0>;<rows of sample 1>;.. OUT <stats line>"
   rows = gc:gs:sc:ss:ac:as:dc:ds, the allocator tally of the sample's timed section (known to the harness), "-" = no samples
   e_k = "=c" (a constant counter c had the last word for kind k), "!" (no counter of kind k), "*" (no expectation),
   "-" (input counter, no samples) or, for an input counter, the samples joined by ";", a sample = comma list
   of the counts of its inputs, "v^k" = k inputs of count v ---- *)
let find_sub (s : string) (key : string) (from : int) : int option =
  let lk = String.length key and ls = String.length s in
  let rec go k = if k + lk > ls then None else if String.sub s k lk = key then Some k else go (k + 1) in
  go from

let split_in_out (i : string) : (string * string * string * string) option =
  if String.length i < 3 || String.sub i 0 3 <> "IN " then None
  else
    match find_sub i " EXP " 3 with
    | None -> None
    | Some pe ->
      (match find_sub i " TAL " pe with
       | None -> None
       | Some pt ->
         (match find_sub i " OUT " pt with
          | None -> None
          | Some po ->
            Some (String.sub i 3 (pe - 3), String.sub i (pe + 5) (pt - pe - 5), String.sub i (pt + 5) (po - pt - 5),
                  String.sub i (po + 5) (String.length i - po - 5))))

(* the recorded allocation infos: one per sample with a non-zero tally row, carrying exactly that row *)
let allocs_ok (inner : string) (tal : string) : bool =
  let inp = parse_case inner in
  let rows = if tal = "-" then [] else
      List.map (fun r -> List.map n_of_string (String.split_on_char ':' r)) (String.split_on_char ';' tal) in
  List.length rows = List.length inp.in_durs && alloc_records_sb rows inp.in_allocs

(* sum of the input counts of one sample *)
let sample_sum (s : string) : n =
  List.fold_left (fun acc item ->
      match String.split_on_char '^' item with
      | [v] -> N.add acc (n_of_string v)
      | [v; k] -> N.add acc (N.mul (n_of_string v) (n_of_string k))
      | _ -> failwith "exp item") N0 (String.split_on_char ',' s)

(* the stored counts of every kind with an input counter are the samples' own per-iteration values *)
let stored_ok (inner : string) (exp : string) : bool =
  let inp = parse_case inner in
  let es = String.split_on_char '|' exp in
  List.length es = List.length inp.in_counters
  && List.for_all2 (fun e ci ->
      if e = "*" then true
      else if e = "!" then no_counter_sb ci
      else if String.length e > 0 && e.[0] = '=' then
        constant_counter_sb (n_of_string (String.sub e 1 (String.length e - 1))) ci
      else
        let sums = if e = "-" then [] else List.map sample_sum (String.split_on_char ';' e) in
        List.length sums = List.length inp.in_durs && stored_counts_sb inp.in_size sums ci)
    es inp.in_counters

let run_mode dbg line =
  let (_, i) = split_sb line in
  match split_in_out i with
  | Some (inner, exp, tal, out) ->
    "IN " ^ inner ^ " EXP " ^ exp ^ " TAL " ^ tal ^ " OUT " ^ stats_mode dbg (inner ^ "\t" ^ out)
  | None -> "no-recording"

let run_check line =
  let (_, i) = split_sb line in
  match split_in_out i with
  | Some (inner, exp, tal, out) ->
    if not (stored_ok inner exp) then
      verdict false "stored-counts-not-one-per-sample-with-the-samples-own-value-or-not-the-last-constant"
    else if not (allocs_ok inner tal) then
      verdict false "allocation-records-not-exactly-the-samples-with-a-nonzero-tally"
    else stats_check (inner ^ "\t" ^ out)
  | None -> verdict false ("outcome:" ^ i)

(* ---- end to end: rows of the table printed by the real runner, one per thread count ----
   impl line: "R <T> IN <s> <durations> <alloc infos> ROW fastest|slowest|median|mean|samples|iters BLOCKS <labels> TP <throughput rows> ;; R ..".
   A duration cell such as "42.83_ns" is the value truncated to 4 significant digits in its unit with trailing
   zeros removed (C18): it stands for the interval [p, p + 10^-(4 - integer digits)) units. *)
let rec pow10 k = if k <= 0 then n_of_small 1 else N.mul ten (pow10 (k - 1))

let unit_picos = function
  | "ps" -> Some (pow10 0) | "ns" -> Some (pow10 3) | "\xc2\xb5s" | "us" -> Some (pow10 6)
  | "ms" -> Some (pow10 9) | "s" -> Some (pow10 12) | _ -> None

let le_n a b = match N.compare a b with Gt -> false | _ -> true
let lt_n a b = match N.compare a b with Lt -> true | _ -> false

(* does the printed cell stand for the value [v] picoseconds? *)
let cell_ok (cell : string) (v : n) : bool =
  match String.split_on_char '_' cell with
  | [num; u] ->
    (match unit_picos u with
     | None -> false
     | Some unit ->
       let (ip, fp) = match String.split_on_char '.' num with
         | [a] -> (a, "") | [a; b] -> (a, b) | _ -> ("x", "") in
       let digits_ok x = x <> "" && String.for_all (fun c -> c >= '0' && c <= '9') x in
       if not (digits_ok ip) || (fp <> "" && not (digits_ok fp)) then false
       else begin
         let dmax = max 0 (4 - String.length ip) in
         let d = String.length fp in
         if d > dmax then false
         else begin
           let p = N.mul (n_of_string (ip ^ fp)) (pow10 (dmax - d)) in     (* p / 10^dmax units *)
           let scaled = N.mul v (pow10 dmax) in
           le_n (N.mul p unit) scaled && lt_n scaled (N.mul (N.add p (n_of_small 1)) unit)
         end
       end)
  | _ -> false

(* one run: thread count, the inputs (sample size, durations, allocation infos, per-sample item counts), the row,
   the printed blocks, the throughput rows *)
let parse_e2e_run (part : string) : (string * inputs * string list * string * string) option =
  match toks part with
  | ["R"; t; "IN"; s; d; a; c; u; "ROW"; row; "BLOCKS"; blocks; "TP"; tp] ->
    Some (t, parse_case (String.concat " " [s; d; a; c; u]), String.split_on_char '|' row, blocks, tp)
  | _ -> None

(* A throughput cell such as "653.7_Mitem/s": count * 10^12 / picos truncated to 4 significant digits in its scale
   (computed in f64: a relative slack of 1e-9 is allowed at the interval's ends).  Is it based on count [c] and
   time [t] picoseconds? *)
let tp_scale (u : string) : n option =
  let base = ["item/s"; "B/s"; "char/s"; "Hz"] in
  if List.mem u base then Some (pow10 0)
  else if String.length u > 1 && List.mem (String.sub u 1 (String.length u - 1)) base then
    (match u.[0] with
     | 'K' -> Some (pow10 3) | 'M' -> Some (pow10 6) | 'G' -> Some (pow10 9) | 'T' -> Some (pow10 12)
     | 'P' -> Some (pow10 15) | _ -> None)
  else None

let tp_cell_ok (cell : string) (c : n) (t : n) : bool =
  match String.split_on_char '_' cell with
  | [num; u] ->
    (match tp_scale u with
     | None -> false
     | Some scale ->
       let (ip, fp) = match String.split_on_char '.' num with
         | [a] -> (a, "") | [a; b] -> (a, b) | _ -> ("x", "") in
       let digits_ok x = x <> "" && String.for_all (fun ch -> ch >= '0' && ch <= '9') x in
       if not (digits_ok ip) || (fp <> "" && not (digits_ok fp)) || t = N0 then false
       else begin
         let dmax = max 0 (4 - String.length ip) in
         let d = String.length fp in
         if d > dmax then false
         else begin
           let p = N.mul (n_of_string (ip ^ fp)) (pow10 (dmax - d)) in
           (* p/10^dmax * scale <= v*(1+e)  and  v*(1-e) < (p+1)/10^dmax * scale,  v = c*10^12/t, e = 10^-9 *)
           let v_num = N.mul (N.mul c (pow10 12)) (pow10 dmax) in
           let e9 = pow10 9 in
           let lhs_lo = N.mul (N.mul (N.mul p scale) t) e9 in
           let lhs_hi = N.mul (N.mul (N.mul (N.add p (n_of_small 1)) scale) t) e9 in
           le_n lhs_lo (N.mul v_num (N.add e9 (n_of_small 1)))
           && lt_n (N.mul v_num (N.sub e9 (n_of_small 1))) lhs_hi
         end
       end)
  | _ -> false

(* the throughput rows of a run: one row (items) iff the kind is reported; every cell based on an admissible count
   of its column and on the column's time [times] *)
let tp_ok (inp : inputs) (times : n list) (tp : string) : bool =
  let items = List.nth inp.in_counters 3 in
  let n = List.length inp.in_durs in
  if not items.ci_input || n = 0 then tp = "-"
  else if List.length items.ci_counts <> n then false
  else
    match String.split_on_char '+' tp with
    | [row] ->
      (match String.split_on_char '|' row with
       | [_; _; _; _] as cells ->
         List.for_all2 (fun (cell, t) cands -> List.exists (fun c -> tp_cell_ok cell c t) cands)
           (List.combine cells times) (column_counts_spec inp.in_durs items.ci_counts)
       | _ -> false)
    | _ -> false

let blocks_s (bs : bool list) =
  let names = ["max_alloc"; "grow"; "shrink"; "alloc"; "dealloc"] in
  let l = List.filter_map (fun (b, n) -> if b then Some n else None) (List.combine bs names) in
  if l = [] then "-" else String.concat "," l

let split_runs (i : string) : string list =
  let rec go acc s =
    match find_sub s " ;; " 0 with
    | Some k -> go (String.sub s 0 k :: acc) (String.sub s (k + 4) (String.length s - k - 4))
    | None -> List.rev (s :: acc) in
  go [] i

(* [figs] = (fastest, slowest, median, mean, samples, iters) the row must show *)
let row_ok row (f, sl, md, me, sc, ic) =
  match row with
  | [cf; cs; cm; cme; csamples; citers] ->
    cell_ok cf f && cell_ok cs sl && cell_ok cm md && cell_ok cme me
    && csamples = string_of_n sc && citers = string_of_n ic
  | _ -> false

let model_figs dbg (inp : inputs) =
  let sv = List.stable_sort (fun (_, a) (_, b) -> cmp_n a b) (indexed inp.in_durs) in
  match compute_stats true dbg sv inp with
  | Ok st -> Some ((st.st_time.fastest, st.st_time.slowest, st.st_time.median, st.st_time.mean,
                    st.st_sample_count, st.st_iter_count), blocks_s (printed_blocks st))
  | Panic _ -> None

let spec_figs (inp : inputs) =
  let s = inp.in_size and durs = inp.in_durs in
  (spec_fastest durs s, spec_slowest durs s, spec_median durs s, spec_mean durs s,
   n_of_small (List.length durs), N.mul s (n_of_small (List.length durs)))

let figs_s (f, sl, md, me, sc, ic) =
  "t=" ^ String.concat "," (List.map string_of_n [f; sl; md; me]) ^ " sc=" ^ string_of_n sc ^ " ic=" ^ string_of_n ic

(* model line = the implementation's run when its row stands for the model's figures, it shows the blocks the
   model's statistics call for and its throughput cells are based on admissible counts; else the model's figures *)
let e2e_mode dbg line =
  let (_, i) = split_sb line in
  String.concat " ;; " (List.map (fun part ->
      match parse_e2e_run part with
      | Some (_, inp, row, blocks, tp) ->
        (match model_figs dbg inp with
         | Some (((f, sl, md, me, _, _) as figs), mb) ->
           if row_ok row figs && blocks = mb && tp_ok inp [f; sl; md; me] tp then part
           else "model " ^ figs_s figs ^ " blocks=" ^ mb
         | None -> "model panic")
      | None -> "unparsed") (split_runs i))

let e2e_check line =
  let (_, i) = split_sb line in
  let bad = List.filter_map (fun part ->
      match parse_e2e_run part with
      | Some (t, inp, row, blocks, tp) ->
        let ((f, sl, md, me, _, _) as figs) = spec_figs inp in
        if not (row_ok row figs) then Some ("t=" ^ t ^ ":row-not-the-statistics-of-that-run's-samples")
        else if blocks <> blocks_s (blocks_spec inp) then
          Some ("t=" ^ t ^ ":allocation-blocks-shown-not-exactly-those-with-a-nonzero-figure")
        else if not (tp_ok inp [f; sl; md; me] tp) then
          Some ("t=" ^ t ^ ":throughput-cell-not-the-count-of-a-sample-that-supplied-the-column's-time")
        else None
      | None -> Some "unparsed") (split_runs i) in
  verdict (bad = []) (String.concat "," bad)

(* ---- per-input counter value ---- *)
let periter line =
  match toks line with
  | [s; cs] ->
    (match per_iter_count (nlist cs) (n_of_string s) with
     | Ok v -> "ok " ^ string_of_n v
     | Panic p -> "panic " ^ string_of_panic p)
  | _ -> failwith "periter"

let periter_impl i =
  match toks i with
  | ["ok"; v] -> Some (Ok (n_of_string v))
  | "panic" :: _ -> Some (Panic Other)
  | _ -> None

let periter_check line =
  let (c, i) = split_sb line in
  match toks c, periter_impl i with
  | [s; cs], Some r -> verdict (per_iter_sb (nlist cs) (n_of_string s) r) "not-sum-over-inputs-div-sample-size"
  | _, None -> verdict false ("outcome:" ^ i)
  | _ -> failwith "periter.sb"

let dispatch mode line =
  match mode with
  | "stats" -> stats_mode true line
  | "stats_rel" -> stats_mode false line
  | "stats.sb" | "stats_rel.sb" -> stats_check line
  | "run" -> run_mode true line
  | "run_rel" -> run_mode false line
  | "run.sb" | "run_rel.sb" -> run_check line
  | "e2e" -> e2e_mode true line
  | "e2e_rel" -> e2e_mode false line
  | "e2e.sb" | "e2e_rel.sb" -> e2e_check line
  | "periter" | "periter_rel" -> periter line
  | "periter.sb" | "periter_rel.sb" -> periter_check line
  | _ -> failwith ("unknown mode " ^ mode)

let () = main dispatch
