(* ---- C08: barrier protocol of a benchmarking round ---- *)

let kv line =
  List.filter_map (fun t ->
    match String.index_opt t '=' with
    | Some i -> Some (String.sub t 0 i, String.sub t (i + 1) (String.length t - i - 1))
    | None -> None) (toks line)

let get k d l = try List.assoc k l with Not_found -> d
let geti k d l = int_of_string (get k (string_of_int d) l)

(* Allocation script shared with the harness (harness/hx-round/src/main.rs `asize`):
   call k of thread t in round r allocates one block of this many bytes. *)
let asize t r k = 64 * (t + 1) + 8 * r + k + 1

type case = { t : int; r : int; n : int; dout : bool; din : bool; grd : bool; faults : (int * int * int) list; test : bool; noinfo : int; mask : string list; tune : bool; sizes : int list }

(* fault token: t:r:g:k | t:r:c:k | t:r:o:k | t:r:i:k  (generator, call, drop of output, drop of input) *)
let pos_of n dout din ph k =
  match ph with
  | "g" -> k
  | "c" -> n + 4 + k
  | "o" -> 2 * n + 7 + (if din then 2 * k else k)
  | "i" -> 2 * n + 7 + (if dout then 2 * k + 1 else k)
  | _ -> failwith "fault phase"

let parse_case line =
  let l = kv line in
  let n = geti "n" 1 l in
  let sh = get "sh" "00" l in
  let dout = sh.[0] = '1' and din = sh.[1] = '1' in
  let faults = match get "fault" "none" l with
    | "none" -> []
    | s -> List.map (fun f -> match String.split_on_char ':' f with
        | [t; r; ph; k] -> (int_of_string t, int_of_string r, pos_of n dout din ph (int_of_string k))
        | _ -> failwith "fault") (String.split_on_char ',' s) in
  { t = geti "T" 2 l; r = geti "R" 1 l; n; dout; din; grd = get "guard" "1" l = "1"; faults; test = get "test" "0" l = "1"; noinfo = geti "noinfo" (-1) l;
    mask = (match get "mask" "" l with "" -> [] | m -> String.split_on_char ',' m);
    tune = get "tune" "0" l = "1"; sizes = [] }

(* sample size of round r: constant, or (tuned runs) read off the log *)
let size_of (c : case) r =
  match c.sizes with
  | [] -> c.n
  | l -> if r < List.length l then List.nth l r else List.nth l (List.length l - 1)

(* Tuned runs are history-driven: the sample sizes 1, 2, 4, ... of the rounds are what the
   sampling loop chose (C19); they are read off the caller's log as the number of generator
   calls before each of its start timestamps. *)
let with_sizes (c : case) (toks_ : string list) : case =
  if not c.tune then c else begin
    let sizes = ref [] and g = ref 0 in
    List.iter (fun tok -> if tok = "0.g" then incr g else if tok = "0.s" then (sizes := !g :: !sizes; g := 0)) toks_;
    let sizes = List.rev !sizes in
    { c with sizes; r = List.length sizes; n = (match sizes with [] -> c.n | x :: _ -> x) }
  end

(* first recorded round of a tuned run: the round that ends tuning (samples.clear() before it is pushed) *)
let first_recorded (c : case) =
  match List.rev c.sizes with
  | [] -> 0
  | last :: _ -> let rec idx i = function [] -> 0 | x :: r -> if x = last then i else idx (i + 1) r in idx 0 c.sizes

(* mask: per round (cycling) one character per thread - what the thread does in each call of
   its timed section: '1' allocate (and leak), 'b' allocate and free, 'f' free a block that was
   allocated before the run, 's' shrink a vector grown before the run, '0' nothing.
   Sizes as in harness/hx-round/src/main.rs. *)
let behaviour (c : case) t r =
  match c.mask with
  | [] -> '1'
  | ms -> let m = List.nth ms (r mod List.length ms) in if t < String.length m then m.[t] else '0'
let fsize t = 32 * (t + 1) + 5
let ssize_ t = 16 * (t + 1) + 3

let config_of ?(fault_all = None) (c : case) : config =
  { nthreads = nat_of_int c.t; nrounds = nat_of_int c.r; ssize = (fun r -> nat_of_int (size_of c (int_of_nat r)));
    shp = { drop_out = c.dout; drop_in = c.din }; guard = c.grd; has_info = (fun i -> int_of_nat i <> c.noinfo);
    fault = (fun i r p -> match fault_all with
      | Some b -> b
      | None -> List.mem (int_of_nat i, int_of_nat r, int_of_nat p) c.faults);
    allocs = (fun i r p ->
      let p = int_of_nat p in
      let c = { c with n = size_of c (int_of_nat r) } in
      if p >= c.n + 4 && p < 2 * c.n + 4
      then (let t = int_of_nat i and r = int_of_nat r in
            let a = n_of_small (asize t r (p - c.n - 4)) in
            match behaviour c t r with
            | '1' -> [Alloc a]
            | 'b' -> [Alloc a; Dealloc a]
            | 'f' -> [Dealloc (n_of_small (fsize t))]
            | 's' -> [Shrink (n_of_small (ssize_ t))]
            | _ -> [])
      else if p < c.n then [Alloc (n_of_small 7777); Dealloc (n_of_small 7777)]   (* generator noise *)
      else [Alloc (n_of_small 3333); Dealloc (n_of_small 3333)]) }                (* drop noise *)

(* ---- exhaustive exploration ------------------------------------------------
   The union of the transitions under the two constant fault functions is the
   transition system in which every user action may or may not panic, i.e. all
   fault sets at once (every (thread, round, position) is visited at most once
   on a path). *)
let key (s : state) : string = Marshal.to_string s [Marshal.No_sharing]

let bfs line =
  let c = parse_case line in
  let cf = config_of ~fault_all:(Some false) c and ct = config_of ~fault_all:(Some true) c in
  let s0 = init cf in
  let seen : (string, unit) Hashtbl.t = Hashtbl.create 100000 in
  let q = Queue.create () in
  Hashtbl.replace seen (key s0) (); Queue.add s0 q;
  let trans = ref 0 and fails = ref [] and finals_ok = ref 0 and finals_panic = ref 0 and deadlocks = ref 0 in
  let fail m = if not (List.mem m !fails) then fails := m :: !fails in
  let labs = labels cf in
  let limit = 4_000_000 in
  while not (Queue.is_empty q) && Hashtbl.length seen < limit do
    let s = Queue.pop q in
    if not (inv_b cf s) then fail "inv";
    if not (phase_sb cf s) then fail "phase_order";
    let succs = List.concat_map (fun l ->
      List.filter_map (fun cfg -> step cfg s l) [cf; ct]) labs in
    if final s then begin
      (match s.gp with GEnd None -> incr finals_ok | _ -> incr finals_panic);
      (match s.gp with
       | GEnd None -> if int_of_nat s.round <> c.r || List.exists panicked s.ths then fail "final-ok-but-panicked"
       | GEnd (Some k) ->
         let k = int_of_nat k in
         List.iteri (fun i th -> if i < k && panicked th then fail "not-least-thread";
                                 if i = k && not (panicked th) then fail "reported-thread-did-not-panic") s.ths
       | _ -> ());
      if succs <> [] then fail "final-has-steps"
    end else if succs = [] then begin incr deadlocks; if c.grd && c.noinfo < 0 then fail "deadlock" end;
    List.iter (fun s' ->
      incr trans;
      if not (int_of_nat (measure cf s') < int_of_nat (measure cf s)) then fail "measure";
      let k = key s' in
      if not (Hashtbl.mem seen k) then (Hashtbl.replace seen k (); Queue.add s' q)) succs
  done;
  if Hashtbl.length seen >= limit then fail "state-limit";
  Printf.sprintf "states=%d transitions=%d finals_ok=%d finals_panic=%d deadlocks=%d fails=%s"
    (Hashtbl.length seen) !trans !finals_ok !finals_panic !deadlocks
    (if !fails = [] then "none" else String.concat "," (List.rev !fails))

(* ---- trace replay ------------------------------------------------------- *)

let ev_of_code = function
  | "g" -> EGen | "c" -> ECall | "o" -> EDropOut | "i" -> EDropIn
  | "a1" -> EArrive (nat_of_int 1) | "a2" -> EArrive (nat_of_int 2) | "a3" -> EArrive (nat_of_int 3)
  | "l1" -> ELeave (nat_of_int 1) | "l2" -> ELeave (nat_of_int 2) | "l3" -> ELeave (nat_of_int 3)
  | "C" -> EClear | "S" -> ESnap | "s" -> EStart | "e" -> EEnd | "P" -> EPanic
  | "ga" -> EGArrive | "gl" -> EGLeave   (* a wait of the guard while unwinding (hook H5) *)
  | s -> failwith ("event code " ^ s)

let parse_log s : (nat * evk) list * string list =
  let ts = List.filter (fun x -> x <> "") (toks s) in
  (List.map (fun tok -> match String.index_opt tok '.' with
     | Some i -> (nat_of_int (int_of_string (String.sub tok 0 i)), ev_of_code (String.sub tok (i + 1) (String.length tok - i - 1)))
     | None -> failwith ("event " ^ tok)) ts, ts)

(* impl line: "<outcome> | <log> | <allocs>" *)
let split_impl s =
  match List.map String.trim (String.split_on_char '|' s) with
  | [o; l; a] -> (o, l, a)
  | _ -> failwith "impl line"

(* Action::Test runs the round but records no sample.  Otherwise: the model of the
   caller's bookkeeping, [records]: index r*T+t -> thread t's tally of round r, no entry
   for an empty tally. *)
let model_allocs (c : case) cfg =
  if c.test then "" else
  String.concat " " (List.map (fun (k, s) ->
    let k = int_of_nat k in
    let ((ac, ab), (dc, db)) = summarise s in
    let ((gc, gb), (sc, sb)) = summarise_re s in
    Printf.sprintf "%d.%d:%s,%s,%s,%s,%s,%s,%s,%s" (k / c.t) (k mod c.t)
      (string_of_n ac) (string_of_n ab) (string_of_n dc) (string_of_n db)
      (string_of_n gc) (string_of_n gb) (string_of_n sc) (string_of_n sb))
    (if c.tune then (let f = first_recorded c in run_records cfg (nat_of_int f) (nat_of_int (c.r - f)) O [])
     else records cfg))

let outcome_s = function
  | None -> "ok"
  | Some (_, k) -> Printf.sprintf "panic %d" (int_of_nat k)

(* run: the input is "case \t impl line" (history-driven: the schedule is the
   implementation's); the model replays the global log through [step] and
   prints what the implementation must have printed. *)
(* e2e (real-macro binary, plain `bench`): the input generator is divan's own `|| ()`, which
   logs nothing.  Its n calls per sample happen on each thread before that thread's first wait;
   they are put back into the log right before the thread's `a1` (a thread-local step can be
   placed anywhere between its neighbours of the same thread), so that the same replay and
   the same specification apply.  No sample's allocation info is printed by that binary. *)
let synth_gens (c : case) (ilog : string) : string =
  String.concat " " (List.concat_map (fun tok ->
    match String.index_opt tok '.' with
    | Some i when String.sub tok (i + 1) (String.length tok - i - 1) = "a1" ->
      List.init c.n (fun _ -> String.sub tok 0 i ^ ".g") @ [tok]
    | _ -> [tok]) (List.filter (fun x -> x <> "") (toks ilog)))

let run_gen ~e2e line =
  let (cs, impl) = split_sb line in
  let c = parse_case cs in
  let c = if e2e then { c with test = true } else c in
  let (_, ilog, _) = split_impl impl in
  let ilog = if e2e then synth_gens c ilog else ilog in
  let (log, toks_) = parse_log ilog in
  let c = with_sizes c toks_ in
  let cfg = config_of c in
  let fuel = measure cfg (init cfg) in
  let s0 = taus fuel cfg (init cfg) in
  let ((acc, st), pend) = replay fuel cfg s0 [] log O in
  let acc = int_of_nat acc in
  let exp = expected cfg in
  let is_synth tok = e2e && String.length tok >= 2 && String.sub tok (String.length tok - 2) 2 = ".g" in
  let accepted = String.concat " " (List.filter (fun t -> not (is_synth t)) (List.filteri (fun i _ -> i < acc) toks_)) in
  let logpart =
    if acc < List.length toks_ then accepted ^ (if acc > 0 then " " else "") ^ Printf.sprintf "REJECT@%d" acc
    else accepted in
  let spec_ok = log_sb (nat_of_int c.t) cfg.ssize log in
  let outcome =
    match st.gp with
    | GEnd _ when acc = List.length toks_ && pend <> [] -> "leave-event-missing"
    | GEnd _ when acc = List.length toks_ && not spec_ok ->
      (* a log accepted by [step] must satisfy the trace-level specification *)
      "driver-error accepted-log-violates-log_sb"
    | GEnd o when acc = List.length toks_ ->
      let o' = match exp with None -> None | Some (_, k) -> Some k in
      if o = o' then outcome_s exp else "driver-error expected-differs-from-replay"
    | GEnd _ -> outcome_s exp
    | _ -> if acc = List.length toks_ then "not-final" else outcome_s exp in
  let allocs = if exp = None then model_allocs c cfg else "" in
  Printf.sprintf "%s | %s | %s" outcome logpart allocs

let run = run_gen ~e2e:false

let run_sb_gen ~e2e line =
  let (cs, impl) = split_sb line in
  let c = parse_case cs in
  let c = if e2e then { c with test = true } else c in
  let cfg = config_of c in
  match (try Some (split_impl impl) with Failure _ -> None) with
  | None -> verdict false ("outcome:" ^ impl)
  | Some (o, ilog, allocs) ->
    let ilog = if e2e then synth_gens c ilog else ilog in
    let (log, toks_) = parse_log ilog in
    let c = with_sizes c toks_ in
    let cfg = config_of c in
    let faulty = c.faults <> [] in
    if o = "hang" then verdict false "hang"
    else if faulty && not (String.length o >= 6 && String.sub o 0 6 = "panic ") then verdict false ("no-caller-panic:" ^ o)
    else if (not faulty) && o <> "ok" then verdict false ("unexpected-outcome:" ^ o)
    else if not (log_sb (nat_of_int c.t) cfg.ssize log) then verdict false "phase-order"
    else if (not faulty) && allocs <> model_allocs c cfg then verdict false "foreign-or-missing-allocations"
    else "true"

let run_sb = run_sb_gen ~e2e:false

let dispatch mode line =
  match mode with
  | "bfs" -> bfs line
  | "run" -> run line
  | "run.sb" -> run_sb line
  | "e2e" -> run_gen ~e2e:true line
  | "e2e.sb" -> run_sb_gen ~e2e:true line
  | "bfs.sb" -> let (_, i) = split_sb line in verdict (String.length i > 0) "empty"
  | _ -> failwith ("unknown mode " ^ mode)

let () = main dispatch
