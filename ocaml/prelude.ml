(* Common prelude of the drivers for the extracted models: reads one case per line on stdin (the same
   lines the Rust harness reads), prints one canonical result line per case. *)
open Model

let n_of_small i =
  let rec pos i = if i = 1 then XH else if i land 1 = 0 then XO (pos (i lsr 1)) else XI (pos (i lsr 1)) in
  if i = 0 then N0 else Npos (pos i)

let ten = n_of_small 10

let n_of_string (s : string) : n =
  let acc = ref N0 in
  String.iter (fun c ->
    if c < '0' || c > '9' then failwith ("bad number " ^ s);
    acc := N.add (N.mul !acc ten) (n_of_small (Char.code c - 48))) s;
  !acc

let rec int_of_pos = function XH -> 1 | XO p -> 2 * int_of_pos p | XI p -> 2 * int_of_pos p + 1
let int_of_n = function N0 -> 0 | Npos p -> int_of_pos p

let string_of_n (x : n) : string =
  if x = N0 then "0" else begin
    let b = Buffer.create 40 in
    let rec go x acc =
      if x = N0 then acc
      else
        let (q, r) = N.div_eucl x ten in
        go q (Char.chr (48 + int_of_n r) :: acc) in
    List.iter (Buffer.add_char b) (go x []);
    Buffer.contents b
  end

let z_of_string (s : string) : z =
  if String.length s > 0 && s.[0] = '-' then
    Z.opp (Z.of_N (n_of_string (String.sub s 1 (String.length s - 1))))
  else Z.of_N (n_of_string s)

let string_of_z (x : z) : string =
  match x with
  | Z0 -> "0"
  | Zpos p -> string_of_n (Npos p)
  | Zneg p -> "-" ^ string_of_n (Npos p)

let rec nat_of_int i = if i <= 0 then O else S (nat_of_int (i - 1))

let bytes_of_string (s : string) : n list =
  List.init (String.length s) (fun i -> n_of_small (Char.code s.[i]))

let string_of_bytes (l : n list) : string =
  let b = Buffer.create 16 in
  List.iter (fun x -> Buffer.add_char b (Char.chr (int_of_n x))) l;
  Buffer.contents b

let string_of_panic = function
  | DivByZero -> "DivByZero" | Overflow -> "Overflow" | UnwrapNone -> "UnwrapNone"
  | OutOfBounds -> "OutOfBounds" | OutOfFuel -> "OutOfFuel" | NotTotalOrder -> "NotTotalOrder"
  | Other -> "Other"

let res_n = function Ok x -> "ok " ^ string_of_n x | Panic p -> "panic " ^ string_of_panic p

let toks line = String.split_on_char ' ' line

(* "case \t impl_output" -> (case, impl) *)
let split_sb line =
  match String.index_opt line '\t' with
  | Some i -> (String.sub line 0 i, String.sub line (i + 1) (String.length line - i - 1))
  | None -> failwith "sb line without tab"

let verdict b why = if b then "true" else "false " ^ why

let rec int_of_nat = function O -> 0 | S n -> 1 + int_of_nat n
let bool_s b = if b then "true" else "false"
let list_s f l = String.concat "," (List.map f l)

(* Each group file ends with [let () = main dispatch]. *)
let main (dispatch : string -> string -> string) =
  let mode = Sys.argv.(1) in
  try
    while true do
      let line = input_line stdin in
      if String.length line > 0 && line.[0] <> '#' then
        print_endline (try dispatch mode line with Failure m -> "driver-error " ^ m | Not_found -> "driver-error not-found"
                                                 | Invalid_argument m -> "driver-error " ^ m)
    done
  with End_of_file -> ()
