(* Driver for the extracted models: reads one case per line on stdin (the same
   lines the Rust harness reads), prints one canonical result line per case. *)
open Model

let n_of_small i =
  let rec pos i = if i = 1 then XH else if i land 1 = 0 then XO (pos (i lsr 1)) else XI (pos (i lsr 1)) in
  if i = 0 then N0 else Npos (pos i)

let ten = n_of_small 10

let n_of_string (s : string) : n =
  let acc = ref N0 in
  String.iter (fun c ->
    if c < '0' || c > '9' then failwith ("bad number " ^ s);
    acc := N.add (N.mul !acc ten) (n_of_small (Char.code c - 48))) s;
  !acc

let rec int_of_pos = function XH -> 1 | XO p -> 2 * int_of_pos p | XI p -> 2 * int_of_pos p + 1
let int_of_n = function N0 -> 0 | Npos p -> int_of_pos p

let string_of_n (x : n) : string =
  if x = N0 then "0" else begin
    let b = Buffer.create 40 in
    let rec go x acc =
      if x = N0 then acc
      else
        let (q, r) = N.div_eucl x ten in
        go q (Char.chr (48 + int_of_n r) :: acc) in
    List.iter (Buffer.add_char b) (go x []);
    Buffer.contents b
  end

let z_of_string (s : string) : z =
  if String.length s > 0 && s.[0] = '-' then
    Z.opp (Z.of_N (n_of_string (String.sub s 1 (String.length s - 1))))
  else Z.of_N (n_of_string s)

let string_of_z (x : z) : string =
  match x with
  | Z0 -> "0"
  | Zpos p -> string_of_n (Npos p)
  | Zneg p -> "-" ^ string_of_n (Npos p)

let rec nat_of_int i = if i <= 0 then O else S (nat_of_int (i - 1))

let bytes_of_string (s : string) : n list =
  List.init (String.length s) (fun i -> n_of_small (Char.code s.[i]))

let string_of_bytes (l : n list) : string =
  let b = Buffer.create 16 in
  List.iter (fun x -> Buffer.add_char b (Char.chr (int_of_n x))) l;
  Buffer.contents b

let string_of_panic = function
  | DivByZero -> "DivByZero" | Overflow -> "Overflow" | UnwrapNone -> "UnwrapNone"
  | OutOfBounds -> "OutOfBounds" | OutOfFuel -> "OutOfFuel" | NotTotalOrder -> "NotTotalOrder"
  | Other -> "Other"

let res_n = function Ok x -> "ok " ^ string_of_n x | Panic p -> "panic " ^ string_of_panic p

let toks line = String.split_on_char ' ' line

(* ---- C11 ---- *)
let tsc line =
  match toks line with
  | [a; b; f] -> res_n (tsc_duration (n_of_string b) (n_of_string a) (n_of_string f))
  | _ -> failwith "tsc"

let dur line =
  match toks line with
  | [s; n] -> res_n (fine_from_duration (n_of_string s) (n_of_string n))
  | _ -> failwith "dur"

let rec repeat x k = if k <= 0 then [] else x :: repeat x (k - 1)

let prec line =
  match toks line with
  | [f; step] ->
    (match tsc_duration (n_of_string step) N0 (n_of_string f) with
     | Ok d ->
       let samples = repeat d 20000 in
       (match measure_precision samples, prec_consumed prec_init samples N0 with
        | Some v, Some c -> "some " ^ string_of_n v ^ " " ^ string_of_n c
        | _ -> "none")
     | Panic p -> "panic " ^ string_of_panic p)
  | _ -> failwith "prec"

(* "case \t impl_output" -> (case, impl) *)
let split_sb line =
  match String.index_opt line '\t' with
  | Some i -> (String.sub line 0 i, String.sub line (i + 1) (String.length line - i - 1))
  | None -> failwith "sb line without tab"

let parse_res_n s =
  match toks s with
  | ["ok"; v] -> Some (Ok (n_of_string v))
  | _ -> None   (* panic / crash / anything else: not an Ok value *)

let verdict b why = if b then "true" else "false " ^ why

let tsc_check line =
  let (c, i) = split_sb line in
  match toks c, parse_res_n i with
  | [a; b; f], Some r -> verdict (tsc_sb (n_of_string a) (n_of_string b) (n_of_string f) r) "not-the-floor"
  | _, None -> verdict false ("outcome:" ^ i)
  | _ -> failwith "tsc.sb"

let dur_check line =
  let (c, i) = split_sb line in
  match toks c, parse_res_n i with
  | [s; n], Some r -> verdict (dur_sb (n_of_string s) (n_of_string n) r) "not-nanos-times-1000"
  | _, None -> verdict false ("outcome:" ^ i)
  | _ -> failwith "dur.sb"

let prec_check line =
  let (c, i) = split_sb line in
  match toks c, toks i with
  | [f; step], ["some"; v; _] -> verdict (prec_sb (n_of_string f) (n_of_string step) (Some (n_of_string v))) "precision-not-the-step"
  | [_; _], _ -> verdict false ("outcome:" ^ i)
  | _ -> failwith "prec.sb"

(* ---- C06 / C07: exhaustive exploration of the pool model for a script ---- *)
let rec int_of_nat = function O -> 0 | S n -> 1 + int_of_nat n

let pool_bfs line =
  let scr = List.map (fun t -> nat_of_int (int_of_string t)) (List.filter (fun t -> t <> "") (toks line)) in
  let s0 = PoolM.init scr in
  let seen = Hashtbl.create 100000 in
  let q = Queue.create () in
  Hashtbl.replace seen s0 (); Queue.add s0 q;
  let trans = ref 0 and fails = ref [] and finals = ref 0 in
  let fail m = if List.length !fails < 3 then fails := m :: !fails in
  let lex_lt s' s =
    let o' = int_of_nat (PoolM.outer_measure s') and o = int_of_nat (PoolM.outer_measure s) in
    o' < o || (o' = o && int_of_nat (PoolM.inner_measure s') < int_of_nat (PoolM.inner_measure s)) in
  while not (Queue.is_empty q) do
    let s = Queue.pop q in
    if not (PoolM.inv_all s) then fail "inv_all";
    let en = PoolM.enabled_labels s in
    if PoolM.final s then begin
      incr finals;
      List.iteri (fun i n ->
        if not (PoolM.once_per_index s (nat_of_int (i + 1)) n) then fail "once_per_index";
        if not (PoolM.published s (nat_of_int (i + 1)) n) then fail "published") scr
    end else if en = [] then fail "deadlock";
    let labels = PoolM.ESpurious :: List.concat_map (fun l ->
      match l with
      | PoolM.ERun0 _ -> [PoolM.ERun0 false; PoolM.ERun0 true]
      | PoolM.EWRun (k, _) -> [PoolM.EWRun (k, false); PoolM.EWRun (k, true)]
      | l -> [l]) (PoolM.candidate_labels s) in
    List.iter (fun l ->
      match PoolM.step s l with
      | Some s' ->
        incr trans;
        if l <> PoolM.ESpurious && not (lex_lt s' s) then fail "measure";
        if not (Hashtbl.mem seen s') then (Hashtbl.replace seen s' (); Queue.add s' q)
      | None -> ()) labels
  done;
  Printf.sprintf "states %d transitions %d finals %d %s" (Hashtbl.length seen) !trans !finals
    (if !fails = [] then "ok" else "FAIL " ^ String.concat "," !fails)

let dispatch mode line =
  match mode with
  | "tsc" -> tsc line
  | "dur" -> dur line
  | "prec" -> prec line
  | "pool-bfs" -> pool_bfs line
  | "tsc.sb" -> tsc_check line
  | "dur.sb" -> dur_check line
  | "prec.sb" -> prec_check line
  | _ -> failwith ("unknown mode " ^ mode)

let () =
  let mode = Sys.argv.(1) in
  try
    while true do
      let line = input_line stdin in
      if String.length line > 0 && line.[0] <> '#' then
        print_endline (dispatch mode line)
    done
  with End_of_file -> ()
