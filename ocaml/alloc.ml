(* ---- group alloc: C10 (tallies), C09 (profiler) ---- *)

(* tokens: a<size> z<size> d<size> r<old>,<new> c *)
let tail s = String.sub s 1 (String.length s - 1)

let ev_of_tok (t : string) : tev =
  if t = "" then failwith "empty token" else
  match t.[0] with
  | 'a' | 'z' -> EOp (OAlloc (n_of_string (tail t)))
  | 'd' -> EOp (ODealloc (n_of_string (tail t)))
  | 'r' -> (match String.split_on_char ',' (tail t) with
            | [a; b] -> EOp (ORealloc (n_of_string a, n_of_string b))
            | _ -> failwith ("bad realloc token " ^ t))
  | 'c' -> EClear
  | _ -> failwith ("bad token " ^ t)

let chk_of = function "D" -> true | "R" -> false | s -> failwith ("bad build flag " ^ s)

let nonempty l = List.filter (fun s -> s <> "") l

let string_of_info (i : info) : string =
  let t x = string_of_n x.t_count ^ " " ^ string_of_n x.t_size in
  String.concat " " [t i.i_grow; t i.i_shrink; t i.i_alloc; t i.i_dealloc;
                     string_of_z i.i_cur_count; string_of_z i.i_max_count;
                     string_of_z i.i_cur_size; string_of_z i.i_max_size]

let res_info = function Ok i -> "ok " ^ string_of_info i | Panic p -> "panic " ^ string_of_panic p

(* "ok 12 numbers" | "panic K" -> Some res ; anything else -> None *)
let parse_res_info (s : string) : info res option =
  match nonempty (toks s) with
  | ["ok"; gc; gs; sc; ss; ac; asz; dc; ds; cc; mc; cs; ms] ->
    (try
      let t c s = { t_count = n_of_string c; t_size = n_of_string s } in
      Some (Ok { i_grow = t gc gs; i_shrink = t sc ss; i_alloc = t ac asz; i_dealloc = t dc ds;
                 i_cur_count = z_of_string cc; i_max_count = z_of_string mc;
                 i_cur_size = z_of_string cs; i_max_size = z_of_string ms })
    with Failure _ -> None)
  | ["panic"; _] -> Some (Panic Other)
  | _ -> None

let clause_name n = match int_of_n n with
  | 0 -> "panic" | 1 -> "grow-row" | 2 -> "shrink-row" | 3 -> "alloc-row" | 4 -> "dealloc-row"
  | 5 -> "current-count" | 6 -> "max-count-is-peak" | 7 -> "current-size" | 8 -> "max-size-is-peak" | _ -> "?"

let why l = String.concat "," (List.map clause_name l)

let ops_of_evs evs = List.map (function EOp o -> o | EClear -> failwith "clear in tally mode") evs

(* mode tally: "<D|R> tok tok ..." *)
let parse_tally line =
  match nonempty (toks line) with
  | b :: rest -> (chk_of b, ops_of_evs (List.map ev_of_tok rest))
  | [] -> failwith "tally: empty"

let tally line = let (chk, ops) = parse_tally line in res_info (run chk ops)

let tally_check line =
  let (c, i) = split_sb line in
  let (chk, ops) = parse_tally c in
  match parse_res_info i with
  | Some r ->
    if not (tally_sb ops r) then verdict false (why (tally_sb_why ops r))
    else if chk then "true"
    else verdict (release_sb ops r) ("release-mod-2^64:" ^ why (release_sb_why ops r))
  | None -> verdict false ("outcome:" ^ i)

(* mode threads: "<D|R> | toks of thread 0 | toks of thread 1 ..." *)
let split_bar s = List.map String.trim (String.split_on_char '|' s)

let parse_threads line : bool * tev list list =
  match split_bar line with
  | b :: ths -> (chk_of b, List.map (fun s -> List.map ev_of_tok (nonempty (toks s))) ths)
  | [] -> failwith "threads: empty"

(* One interleaving of the threads' events (round robin, one event each). *)
let interleave (ths : tev list list) : (n * tev) list =
  let rec go (qs : (int * tev list) list) acc =
    let live = List.filter (fun (_, l) -> l <> []) qs in
    if live = [] then List.rev acc
    else
      let acc' = List.fold_left (fun a (t, l) -> (n_of_small t, List.hd l) :: a) acc live in
      go (List.map (fun (t, l) -> (t, List.tl l)) live) acc' in
  go (List.mapi (fun i l -> (i, l)) ths) []

let threads line =
  let (chk, ths) = parse_threads line in
  let g = interleave ths in
  let m = tmap_run chk g in
  String.concat " | " (List.mapi (fun i _ -> res_info (m (n_of_small i))) ths)

let threads_check line =
  let (c, i) = split_sb line in
  let (_, ths) = parse_threads c in
  let outs = split_bar i in
  if List.length outs <> List.length ths then verdict false ("outcome:" ^ i)
  else
    let bad = List.concat (List.mapi (fun k (evs, o) ->
      match parse_res_info o with
      | Some r -> if ev_sb evs r then [] else ["thread" ^ string_of_int k ^ ":" ^ why (ev_sb_why evs r)]
      | None -> ["thread" ^ string_of_int k ^ ":outcome:" ^ o]) (List.combine ths outs)) in
    verdict (bad = []) (String.concat ";" bad)

(* mode guard: "tok tok ..." -> whether the sequence is inside the no-overflow guard (for histograms) *)
let guard line =
  let evs = List.map ev_of_tok (nonempty (toks line)) in
  bool_s (no_overflow (all_ops evs))

(* ---- C09: mode prof: "<D|R> a:size:align:ret z:size:align:ret r:ptr:size:align:new:ret d:ptr:size:align" ---- *)
let lay s a = { l_size = n_of_string s; l_align = n_of_string a }

let req_of_tok (t : string) : req * resp =
  match String.split_on_char ':' t with
  | ["a"; s; a; r] -> (RAlloc (lay s a), RespPtr (n_of_string r))
  | ["z"; s; a; r] -> (RAllocZeroed (lay s a), RespPtr (n_of_string r))
  | ["r"; p; s; a; n; r] -> (RRealloc (n_of_string p, lay s a, n_of_string n), RespPtr (n_of_string r))
  | ["d"; p; s; a] -> (RDealloc (n_of_string p, lay s a), RespUnit)
  | _ -> failwith ("bad request " ^ t)

(* what the mock logs: the request without the scripted return *)
let logged_req_of_tok (t : string) : req =
  match String.split_on_char ':' t with
  | ["a"; s; a] -> RAlloc (lay s a)
  | ["z"; s; a] -> RAllocZeroed (lay s a)
  | ["r"; p; s; a; n] -> RRealloc (n_of_string p, lay s a, n_of_string n)
  | ["d"; p; s; a] -> RDealloc (n_of_string p, lay s a)
  | _ -> failwith ("bad log entry " ^ t)

let string_of_req = function
  | RAlloc l -> "a:" ^ string_of_n l.l_size ^ ":" ^ string_of_n l.l_align
  | RAllocZeroed l -> "z:" ^ string_of_n l.l_size ^ ":" ^ string_of_n l.l_align
  | RRealloc (p, l, n) -> "r:" ^ string_of_n p ^ ":" ^ string_of_n l.l_size ^ ":" ^ string_of_n l.l_align ^ ":" ^ string_of_n n
  | RDealloc (p, l) -> "d:" ^ string_of_n p ^ ":" ^ string_of_n l.l_size ^ ":" ^ string_of_n l.l_align

let string_of_resp = function RespPtr p -> string_of_n p | RespUnit -> "-"

let parse_prof line : bool * (req * resp) list =
  match nonempty (toks line) with
  | b :: rest -> (chk_of b, List.map req_of_tok rest)
  | [] -> failwith "prof: empty"

let prof line =
  let (chk, rs) = parse_prof line in
  let script = Array.of_list (List.map snd rs) in
  (* the wrapped allocator: answers the k-th request it receives with the k-th scripted value *)
  let inner (hist : req list) : resp = script.(List.length hist - 1) in
  let ((log, rets), out) = run_prof_trace inner chk (Some info_init) [] (List.map fst rs) in
  let scripted = List.length (List.filter (fun r -> r <> RespUnit) (Array.to_list script)) in
  let answered = List.length (List.filter (fun r -> r <> RespUnit) rets) in
  let body = "log=" ^ list_s string_of_req log ^ " ret=" ^ list_s string_of_resp rets
             ^ " unused=" ^ string_of_int (scripted - answered) in
  match out with
  | Ok slot -> body ^ " tally=" ^ (match slot with Some i -> string_of_info i | None -> "none")
  | Panic p -> "panic " ^ string_of_panic p ^ " " ^ body

let field name s =
  let pre = name ^ "=" in
  let l = String.length pre in
  if String.length s >= l && String.sub s 0 l = pre then String.sub s l (String.length s - l)
  else failwith ("missing field " ^ name)

let split_commas s = if s = "" then [] else String.split_on_char ',' s

let prof_why l = String.concat "," (List.map (fun n -> match int_of_n n with
  | 1 -> "inner-calls-differ-from-requests" | 2 -> "returned-values-differ-from-inner-responses" | _ -> "?") l)

let prof_check line =
  let (c, i) = split_sb line in
  let (_, rs) = parse_prof c in
  let reqs = List.map fst rs and script = List.map snd rs in
  let ops = List.map op_of_req reqs in
  let rec take k l = if k <= 0 then [] else match l with [] -> [] | x :: r -> x :: take (k - 1) r in
  match toks i with
  | ["panic"; _; l; r; _] ->
    (* debug tally overflow: what was forwarded before must be a proper prefix of the requests *)
    (try
      if no_overflow ops then verdict false "panic-inside-the-no-overflow-guard" else
      let log = List.map logged_req_of_tok (split_commas (field "log" l)) in
      let rets = List.map (fun s -> if s = "-" then RespUnit else RespPtr (n_of_string s)) (split_commas (field "ret" r)) in
      let k = List.length log in
      if k >= List.length reqs then verdict false "forwarded-a-request-whose-tally-panicked"
      else verdict (prof_sb (take k reqs) (take k script) log rets)
             ("before-panic:" ^ prof_why (prof_sb_why (take k reqs) (take k script) log rets))
    with Failure m -> verdict false ("outcome:" ^ i))
  | "panic" :: _ -> verdict false ("outcome:" ^ i)
  | l :: r :: u :: t ->
    (try
      let log = List.map logged_req_of_tok (split_commas (field "log" l)) in
      let rets = List.map (fun s -> if s = "-" then RespUnit else RespPtr (n_of_string s)) (split_commas (field "ret" r)) in
      let tl = String.concat " " t in
      let tally_ok = (match parse_res_info ("ok " ^ field "tally" tl) with
                      | Some ti -> tally_sb ops ti | None -> false) in
      let ok = prof_sb reqs script log rets in
      if not ok then verdict false (prof_why (prof_sb_why reqs script log rets))
      else if field "unused" u <> "0" then verdict false "scripted-responses-left-over"
      else verdict tally_ok "tally-depends-on-something-else-than-the-requests"
    with Failure m -> verdict false ("outcome:" ^ i))
  | _ -> verdict false ("outcome:" ^ i)

(* ---- C10: mode record: "<D|R> t=.. n=.. s=.. step=.. b=.. rounds=<size/ops_t0/ops_t1;...>"
   ops of a thread in a round: "-" or "K*tok+tok&K*tok..." (K calls, each performing the '+'-joined operations) ---- *)
let kv_of line =
  List.filter_map (fun t -> match String.index_opt t '=' with
    | Some i -> Some (String.sub t 0 i, String.sub t (i + 1) (String.length t - i - 1))
    | None -> None) (nonempty (toks line))

let expand_ops (s : string) : aop list =
  if s = "-" then [] else
  List.concat_map (fun grp ->
    match String.index_opt grp '*' with
    | Some i ->
      let k = int_of_string (String.sub grp 0 i) in
      let call = List.map (fun t -> match ev_of_tok t with EOp o -> o | EClear -> failwith "clear in record history")
                   (String.split_on_char '+' (String.sub grp (i + 1) (String.length grp - i - 1))) in
      List.concat (List.init k (fun _ -> call))
    | None -> failwith ("bad call group " ^ grp)) (String.split_on_char '&' s)

(* history -> the operations handed to the recording step.  A run without a fixed sample size tunes:
   every round up to and including the first one run at the final sample size is a tuning round
   (samples.clear(), then the round is recorded); the rounds after it only record. *)
let record_ops (chk : bool) (tuned : bool) (rounds : string) : rop list =
  if rounds = "-" then [] else
  let rs = List.map (fun r -> match String.split_on_char '/' r with
    | size :: ths -> (int_of_string size,
                      List.map (fun ops -> match run chk (expand_ops ops) with
                                  | Ok i -> i | Panic _ -> failwith "tally panicked in a round") ths)
    | [] -> failwith "bad round") (String.split_on_char ';' rounds) in
  let final = fst (List.nth rs (List.length rs - 1)) in
  let rec first_final k = function (sz, _) :: r -> if sz = final then k else first_final (k + 1) r | [] -> k in
  let last_tune = if tuned then first_final 0 rs else -1 in
  List.concat (List.mapi (fun k (_, snaps) -> if k <= last_tune then [RClear; RRound snaps] else [RRound snaps]) rs)

let string_of_recs (m : (n * info) list) : string =
  if m = [] then "-" else
  let sorted = List.sort (fun (a, _) (b, _) -> compare (int_of_n a) (int_of_n b)) m in
  String.concat ";" (List.map (fun (k, i) ->
    string_of_n k ^ ":" ^ String.concat "," (String.split_on_char ' ' (string_of_info i))) sorted)

let parse_record_case line =
  let kv = kv_of line in
  let chk = chk_of (List.hd (nonempty (toks line))) in
  let tuned = (List.assoc "s" kv = "0") in
  (chk, tuned, kv)

let record line =
  let (chk, tuned, kv) = parse_record_case line in
  let rounds = List.assoc "rounds" kv in
  let st = rec_run (record_ops chk tuned rounds) in
  "rounds=" ^ rounds ^ " len=" ^ string_of_n st.s_len ^ " rec=" ^ string_of_recs st.s_map

let record_why l = String.concat "," (List.map (fun n -> match int_of_n n with
  | 1 -> "number-of-samples" | 2 -> "sample-has-exactly-its-own-threads-snapshot-iff-non-empty"
  | 3 -> "entry-beyond-the-samples" | 4 -> "duplicate-keys" | _ -> "?") l)

let record_check line =
  let (c, i) = split_sb line in
  let (chk, tuned, _) = parse_record_case c in
  match kv_of i with
  | [("rounds", rounds); ("len", len); ("rec", recs)] ->
    (try
      let ops = record_ops chk tuned rounds in
      let recs = if recs = "-" then [] else
        List.map (fun e -> match String.split_on_char ':' e with
          | [k; nums] ->
            (match parse_res_info ("ok " ^ String.concat " " (String.split_on_char ',' nums)) with
             | Some (Ok inf) -> (n_of_string k, inf)
             | _ -> failwith "bad record")
          | _ -> failwith "bad record entry") (String.split_on_char ';' recs) in
      let len = n_of_string len in
      verdict (record_sb ops len recs) (record_why (record_sb_why ops len recs))
    with Failure m -> verdict false ("outcome:" ^ m))
  | _ -> verdict false ("outcome:" ^ i)

(* ---- C09: mode nest: "<D|R> depth:via:reqtok ..." (pre-order, depth-annotated) ---- *)
let parse_nest line : bool * rforest =
  match nonempty (toks line) with
  | b :: rest ->
    let items = List.map (fun t ->
      match String.split_on_char ':' t with
      | d :: _via :: f -> (int_of_string d, req_of_tok (String.concat ":" f))
      | _ -> failwith ("bad nest token " ^ t)) rest in
    (* forest at [depth]: consumes the nodes of that depth with their subtrees *)
    let rec forest depth items =
      match items with
      | (d, (r, a)) :: tl when d = depth ->
        let (children, tl') = forest (depth + 1) tl in
        let (siblings, tl'') = forest depth tl' in
        (FCons (RNode (r, a, children), siblings), tl'')
      | _ -> (FNil, items) in
    let (f, left) = forest 0 items in
    if left <> [] then failwith "malformed forest" else (chk_of b, f)
  | [] -> failwith "nest: empty"

let nest line =
  let (chk, f) = parse_nest line in
  match prof_forest chk (Some info_init) [] f with
  | Ok ((slot, log), rets) ->
    "log=" ^ list_s string_of_req log ^ " ret=" ^ list_s string_of_resp rets ^ " unserved=0 tally="
    ^ (match slot with Some i -> string_of_info i | None -> "none")
  | Panic p -> "panic " ^ string_of_panic p

let nest_check line =
  let (c, i) = split_sb line in
  let (_, f) = parse_nest c in
  let ops = List.map op_of_req (pre_reqs_f f) in
  match toks i with
  | "panic" :: _ -> verdict (not (no_overflow ops)) ("outcome:" ^ i)
  | l :: r :: u :: t ->
    (try
      let log = List.map logged_req_of_tok (split_commas (field "log" l)) in
      let rets = List.map (fun s -> if s = "-" then RespUnit else RespPtr (n_of_string s)) (split_commas (field "ret" r)) in
      let tally_ok = (match parse_res_info ("ok " ^ field "tally" (String.concat " " t)) with
                      | Some ti -> tally_sb ops ti | None -> false) in
      if not (nest_sb f log rets) then verdict false (prof_why (nest_sb_why f log rets))
      else if field "unserved" u <> "0" then verdict false "request-never-reached-the-wrapped-allocator"
      else verdict tally_ok "tally-is-not-that-of-the-pre-order-sequence"
    with Failure m -> verdict false ("outcome:" ^ i))
  | _ -> verdict false ("outcome:" ^ i)

(* mode churn: the run-time part (tested, not proved): the global-allocator binary prints "equal ..." *)
let churn _ = "equal"
let churn_check line =
  let (_, i) = split_sb line in
  verdict (i = "equal") ("outcome:" ^ i)

let dispatch mode line =
  match mode with
  | "tally" -> tally line
  | "tally.sb" -> tally_check line
  | "threads" -> threads line
  | "threads.sb" -> threads_check line
  | "guard" -> guard line
  | "prof" -> prof line
  | "prof.sb" -> prof_check line
  | "record" -> record line
  | "record.sb" -> record_check line
  | "nest" -> nest line
  | "nest.sb" -> nest_check line
  | "churn" -> churn line
  | "churn.sb" -> churn_check line
  | _ -> failwith ("unknown mode " ^ mode)

let () = main dispatch
