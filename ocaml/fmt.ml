(* ---- C18: driver for the group "fmt" ---- *)
let out_s = function
  | FOk s -> "ok [" ^ string_of_bytes s ^ "]"
  | FPanic p -> "panic " ^ string_of_panic p
  | FInexact -> "unmodelled-f64-inexact"

let res_s = function
  | Ok s -> "ok [" ^ string_of_bytes s ^ "]"
  | Panic p -> "panic " ^ string_of_panic p

let opt_n s = if s = "-" then None else Some (n_of_string s)

(* "ok [....]" -> bytes *)
let parse_ok (i : string) : n list option =
  let l = String.length i in
  if l >= 5 && String.sub i 0 4 = "ok [" && i.[l - 1] = ']' then Some (bytes_of_string (String.sub i 4 (l - 5)))
  else None

let rec pow2 k = if k <= 0 then n_of_small 1 else N.mul (n_of_small 2) (pow2 (k - 1))

(* IEEE-754 binary64 bits (decimal u64) -> the exact value *)
let fval_of_bits (s : string) : fval =
  let bits = n_of_string s in
  if N.leb (pow2 63) bits then failwith "negative float: outside the model" else
  let e = int_of_n (N.div bits (pow2 52)) in
  let m = N.modulo bits (pow2 52) in
  if e = 2047 then (if m = N0 then VInf else VNaN)
  else if e = 0 then VQ (m, pow2 1074)
  else
    let mm = N.add (pow2 52) m in
    if e >= 1075 then VQ (N.mul mm (pow2 (e - 1075)), n_of_small 1)
    else VQ (mm, pow2 (1075 - e))

let dur line = match toks line with
  | [p] -> out_s (fmt_duration_with None None (n_of_string p))
  | _ -> failwith "dur"

let durw line = match toks line with
  | [p; pr; w] -> out_s (fmt_duration_with (opt_n pr) (opt_n w) (n_of_string p))
  | _ -> failwith "durw"

let four = n_of_small 4

let dur_check line =
  let (c, i) = split_sb line in
  match toks c, parse_ok i with
  | [p], Some s -> verdict (duration_sb four None (n_of_string p) (FOk s)) "not-the-truncated-value-in-the-largest-unit"
  | [_], None -> verdict false ("outcome:" ^ i)
  | _ -> failwith "dur.sb"

let durw_check line =
  let (c, i) = split_sb line in
  match toks c, parse_ok i with
  | [p; pr; w], Some s ->
    let sg = (match opt_n pr with Some x -> x | None -> four) in
    verdict (duration_sb sg (opt_n w) (n_of_string p) (FOk s)) "not-the-truncated-value-in-the-largest-unit"
  | [_; _; _], None -> verdict false ("outcome:" ^ i)
  | _ -> failwith "durw.sb"

(* float-path streams: the model input is "case \t impl"; the model answers with the implementation's
   string when it is admissible (within double-precision rounding of the exact rule), else with the exact one *)
let admissible exact sbv impl =
  match parse_ok impl with
  | Some s when sbv (Ok s) -> impl
  | _ -> res_s exact

let f64_parts line = let (c, i) = split_sb line in
  match toks c with
  | [b; sg] -> (fval_of_bits b, n_of_string sg, i)
  | _ -> failwith "f64"

let f64_sbv v sg = fun o -> match v with
  | VQ (a, b) -> f64_sb_approx sg a b o
  | _ -> o = format_f64 sg v

let f64m line = let (v, sg, i) = f64_parts line in admissible (format_f64 sg v) (f64_sbv v sg) i
let f64_check line = let (v, sg, i) = f64_parts line in
  match parse_ok i with
  | Some s -> verdict (f64_sbv v sg (Ok s)) "not-within-rounding-of-the-truncated-value"
  | None -> verdict false ("outcome:" ^ i)

let bytes_parts line = let (c, i) = split_sb line in
  match toks c with
  | [b; sg; bin] -> (fval_of_bits b, n_of_string sg, bin = "1", i)
  | _ -> failwith "bytes"

let bytes_sbv v sg bin = fun o -> match v with
  | VQ (a, b) -> bytes_sb bin sg a b o
  | _ -> o = format_bytes bin sg v

let bytesm line = let (v, sg, bin, i) = bytes_parts line in admissible (format_bytes bin sg v) (bytes_sbv v sg bin) i
let bytes_check line = let (v, sg, bin, i) = bytes_parts line in
  match parse_ok i with
  | Some s -> verdict (bytes_sbv v sg bin (Ok s)) "not-within-rounding-of-the-truncated-scaled-value"
  | None -> verdict false ("outcome:" ^ i)

let thr_parts line = let (c, i) = split_sb line in
  match toks c with
  | [k; cnt; p; bin] -> (n_of_string k, n_of_string cnt, n_of_string p, bin = "1", i)
  | _ -> failwith "thr"

let thrm line = let (k, c, p, bin, i) = thr_parts line in
  admissible (display_throughput k c p bin) (throughput_sb k c p bin) i
let thr_check line = let (k, c, p, bin, i) = thr_parts line in
  match parse_ok i with
  | Some s -> verdict (throughput_sb k c p bin (Ok s)) "zero/inf/truncated-scaled-value-rule"
  | None -> verdict false ("outcome:" ^ i)

let thrw_parts line = let (c, i) = split_sb line in
  match toks c with
  | [k; cnt; p; bin; pr; w] -> (n_of_string k, n_of_string cnt, n_of_string p, bin = "1", opt_n pr, opt_n w, i)
  | _ -> failwith "thrw"

let thrwm line = let (k, c, p, bin, pr, w, i) = thrw_parts line in
  admissible (display_throughput_with k c p bin pr w) (throughput_with_sb k c p bin pr w) i
let thrw_check line = let (k, c, p, bin, pr, w, i) = thrw_parts line in
  match parse_ok i with
  | Some s -> verdict (throughput_with_sb k c p bin pr w (Ok s)) "not-the-rule-for-precision-significant-figures-padded-to-width"
  | None -> verdict false ("outcome:" ^ i)

(* exact model, for inspection: same case lines without the implementation's answer *)
let thr_exact line = match toks line with
  | [k; cnt; p; bin] -> res_s (display_throughput (n_of_string k) (n_of_string cnt) (n_of_string p) (bin = "1"))
  | _ -> failwith "thr.exact"


(* ---- end-to-end table stream (mode e2e): "<api> <flag> <env> \t ok <bench>|<label>|c0|c1|c2|c3;..." ----
   The bench set mirrors harness/hx-fmt/src/e2e.rs: name, counters (kind, count) in KnownCounterKind order,
   and whether one allocation of 2048 bytes per iteration is reported. *)
let e2e_benches = [
  ("a_copy_1mib", [(0, "1048576")], false);
  ("b_zero_items", [(3, "0")], false);
  ("c_empty_input", [(0, "0")], false);
  ("d_mixed", [(0, "4096"); (1, "0")], false);
  ("e_all_zero", [(0, "0"); (1, "0"); (2, "0"); (3, "0")], false);
  ("f_alloc_2048", [], true);
  ("g_items_1500", [(3, "1500")], false);
]

(* The format the run is configured with: a builder call after from_args wins; otherwise the command line
   (flag before environment) as applied by config_with_args; otherwise a builder call made before
   config_with_args; otherwise decimal. *)
let e2e_binary api flag envv =
  let of_s = function "binary" -> Some true | "decimal" -> Some false | _ -> None in
  let cli = match of_s flag with Some b -> Some b | None -> of_s envv in
  match api with
  | "builder-binary" -> true
  | "builder-decimal" -> false
  | "pre-binary" -> (match cli with Some b -> b | None -> true)
  | "pre-decimal" -> (match cli with Some b -> b | None -> false)
  | _ -> (match cli with Some b -> b | None -> false)

let n1 = n_of_small 1
let rec pow10 k = if k <= 0 then n1 else N.mul ten (pow10 (k - 1))
let ceil_div a b = N.div (N.sub (N.add a b) n1) b

let unit_picos = function
  | "ps" -> Some n1 | "ns" -> Some (pow10 3) | "\xc2\xb5s" -> Some (pow10 6) | "ms" -> Some (pow10 9)
  | "s" -> Some (pow10 12) | "m" -> Some (N.mul (n_of_small 60) (pow10 12))
  | "h" -> Some (N.mul (n_of_small 3600) (pow10 12)) | "d" -> Some (N.mul (n_of_small 86400) (pow10 12))
  | _ -> None

let all_digits s = s <> "" && String.for_all (fun c -> c >= '0' && c <= '9') s

(* a printed time cell -> the interval of integer picosecond values that print as this cell *)
let time_interval (cell : string) : (n * n) option =
  match String.rindex_opt cell ' ' with
  | None -> None
  | Some i ->
    let num = String.sub cell 0 i and suf = String.sub cell (i + 1) (String.length cell - i - 1) in
    let (ip, fp) = match String.index_opt num '.' with
      | None -> (num, "")
      | Some j -> (String.sub num 0 j, String.sub num (j + 1) (String.length num - j - 1)) in
    (match unit_picos suf with
     | Some u when all_digits ip && (fp = "" || all_digits fp) ->
       let d = String.length ip and m = String.length fp in
       let k = max m (max 0 (4 - d)) in
       let t = N.mul (n_of_string (ip ^ fp)) (pow10 (k - m)) in
       let lo = ceil_div (N.mul t u) (pow10 k) in
       let hi = N.sub (ceil_div (N.mul (N.add t n1) u) (pow10 k)) n1 in
       Some (lo, if N.ltb hi lo then lo else hi)
     | _ -> None)

(* value printed in a throughput cell as count*10^12 / p  ->  candidates for p *)
let thr_cell_ok kind count binary (tcell : string) (cell : string) : bool =
  match time_interval tcell with
  | None -> false
  | Some (lo, hi) ->
    let out = Ok (bytes_of_string cell) in
    let k = n_of_small kind in
    let ok p = N.leb lo p && N.leb p hi && throughput_sb k count p binary out in
    if count = N0 then throughput_sb k count lo binary out
    else begin
      let f = (match kind with 0 -> SBytesThr binary | 1 -> SChars | 2 -> SCycles | _ -> SItems) in
      let cands = match printed_value f (bytes_of_string cell) with
        | Some (x, y) when x <> N0 ->
          let pm = N.div (N.mul (N.mul count (pow10 12)) y) x in
          [lo; hi; pm; N.add pm n1; N.sub pm n1]
        | _ -> [lo; hi] in
      List.exists ok cands
    end

let e2e_table (binary : bool) (table : string) : (bool * string) =
    let rows = List.filter (fun r -> r <> "") (String.split_on_char ';' table) in
    let rows = List.map (fun r -> match String.split_on_char '|' r with
        | [b; l; c0; c1; c2; c3] -> (b, l, [c0; c1; c2; c3])
        | _ -> failwith ("e2e row " ^ r)) rows in
    let problem = ref None in
    let fail m = if !problem = None then problem := Some m in
    List.iter (fun (name, counters, alloc) ->
      let mine = List.filter (fun (b, _, _) -> b = name) rows in
      match mine with
      | (_, "time", tcells) :: rest ->
        let rest = ref rest in
        let next () = match !rest with r :: tl -> rest := tl; Some r | [] -> None in
        List.iter (fun (kind, cnt) ->
          match next () with
          | Some (_, "-", cells) ->
            List.iteri (fun j cell ->
              if not (thr_cell_ok kind (n_of_string cnt) binary (List.nth tcells j) cell) then
                fail (Printf.sprintf "%s:counter-kind-%d:column-%d:[%s]-for-time-[%s]-count-%s-%s" name kind j cell
                        (List.nth tcells j) cnt (if binary then "binary" else "decimal"))) cells
          | _ -> fail (Printf.sprintf "%s:missing-throughput-row-for-counter-kind-%d-count-%s" name kind cnt)) counters;
        if alloc then
          List.iter (fun hdr ->
            (match next () with
             | Some (_, l, _) when l = hdr -> ()
             | _ -> fail (name ^ ":missing-" ^ hdr));
            (match next () with
             | Some (_, "-", cells) ->
               List.iter (fun c -> if not (f64_sb_approx four n1 n1 (Ok (bytes_of_string c))) then fail (name ^ ":alloc-count:[" ^ c ^ "]")) cells
             | _ -> fail (name ^ ":missing-alloc-count-row"));
            (match next () with
             | Some (_, "-", cells) ->
               List.iter (fun c -> if not (bytes_sb binary four (n_of_small 2048) n1 (Ok (bytes_of_string c))) then
                             fail (Printf.sprintf "%s:%s-size:[%s]-for-2048-bytes-%s" name hdr c (if binary then "binary" else "decimal"))) cells
             | _ -> fail (name ^ ":missing-alloc-size-row"))) ["max alloc:"; "alloc:"];
        (match !rest with [] -> () | (_, l, cells) :: _ -> fail (name ^ ":unexpected-row:" ^ l ^ ":" ^ String.concat "," cells))
      | _ -> fail (name ^ ":missing-bench-row")) e2e_benches;
    (match !problem with None -> (true, "") | Some m -> (false, String.map (fun c -> if c = ' ' then '_' else c) m))

(* split on " @@ " *)
let split_tables (s : string) : string list =
  let sep = " @@ " in
  let rec go acc start i =
    if i + 4 > String.length s then List.rev (String.sub s start (String.length s - start) :: acc)
    else if String.sub s i 4 = sep then go (String.sub s start (i - start) :: acc) (i + 4) (i + 4)
    else go acc start (i + 1) in
  go [] 0 0

let e2e_eval (case : string) (impl : string) : (bool * string) =
  match toks case with
  | [api; flag; envv] ->
    if String.length impl < 3 || String.sub impl 0 3 <> "ok " then (false, "outcome:" ^ impl) else
    let body = String.sub impl 3 (String.length impl - 3) in
    if String.length api > 4 && String.sub api 0 4 = "seq-" then begin
      (* one runner after the other in one process: each table with that runner's own format *)
      let fmts = List.init (String.length api - 4) (fun i -> api.[4 + i] = 'b') in
      let tables = split_tables body in
      if List.length tables <> List.length fmts then (false, "expected-one-table-per-runner") else
      List.fold_left (fun (ok, m) (idx, (b, t)) ->
          if not ok then (ok, m) else
          match e2e_table b t with
          | (true, _) -> (true, "")
          | (false, why) -> (false, Printf.sprintf "runner-%d-of-%s:%s" (idx + 1) api why))
        (true, "") (List.mapi (fun i x -> (i, x)) (List.combine fmts tables))
    end else e2e_table (e2e_binary api flag envv) body
  | _ -> failwith "e2e"

let e2em line = let (c, i) = split_sb line in
  match e2e_eval c i with (true, _) -> i | (false, m) -> "expected-table-per-model-but " ^ m
let e2e_check line = let (c, i) = split_sb line in
  let (b, m) = e2e_eval c i in verdict b m

let dispatch mode line =
  match mode with
  | "dur" -> dur line
  | "durw" -> durw line
  | "dur.sb" -> dur_check line
  | "durw.sb" -> durw_check line
  | "f64" -> f64m line
  | "f64.sb" -> f64_check line
  | "bytes" -> bytesm line
  | "bytes.sb" -> bytes_check line
  | "thr" -> thrm line
  | "thr.sb" -> thr_check line
  | "thr.exact" -> thr_exact line
  | "thrw" -> thrwm line
  | "thrw.sb" -> thrw_check line
  | "e2e" -> e2em line
  | "e2e.sb" -> e2e_check line
  | _ -> failwith ("unknown mode " ^ mode)

let () = main dispatch
