(* ---- C18: driver for the group "fmt" ---- *)
let out_s = function
  | FOk s -> "ok [" ^ string_of_bytes s ^ "]"
  | FPanic p -> "panic " ^ string_of_panic p
  | FInexact -> "unmodelled-f64-inexact"

let res_s = function
  | Ok s -> "ok [" ^ string_of_bytes s ^ "]"
  | Panic p -> "panic " ^ string_of_panic p

let opt_n s = if s = "-" then None else Some (n_of_string s)

(* "ok [....]" -> bytes *)
let parse_ok (i : string) : n list option =
  let l = String.length i in
  if l >= 5 && String.sub i 0 4 = "ok [" && i.[l - 1] = ']' then Some (bytes_of_string (String.sub i 4 (l - 5)))
  else None

let rec pow2 k = if k <= 0 then n_of_small 1 else N.mul (n_of_small 2) (pow2 (k - 1))

(* IEEE-754 binary64 bits (decimal u64) -> the exact value *)
let fval_of_bits (s : string) : fval =
  let bits = n_of_string s in
  if N.leb (pow2 63) bits then failwith "negative float: outside the model" else
  let e = int_of_n (N.div bits (pow2 52)) in
  let m = N.modulo bits (pow2 52) in
  if e = 2047 then (if m = N0 then VInf else VNaN)
  else if e = 0 then VQ (m, pow2 1074)
  else
    let mm = N.add (pow2 52) m in
    if e >= 1075 then VQ (N.mul mm (pow2 (e - 1075)), n_of_small 1)
    else VQ (mm, pow2 (1075 - e))

let dur line = match toks line with
  | [p] -> out_s (fmt_duration_with None None (n_of_string p))
  | _ -> failwith "dur"

let durw line = match toks line with
  | [p; pr; w] -> out_s (fmt_duration_with (opt_n pr) (opt_n w) (n_of_string p))
  | _ -> failwith "durw"

let four = n_of_small 4

let dur_check line =
  let (c, i) = split_sb line in
  match toks c, parse_ok i with
  | [p], Some s -> verdict (duration_sb four None (n_of_string p) (FOk s)) "not-the-truncated-value-in-the-largest-unit"
  | [_], None -> verdict false ("outcome:" ^ i)
  | _ -> failwith "dur.sb"

let durw_check line =
  let (c, i) = split_sb line in
  match toks c, parse_ok i with
  | [p; pr; w], Some s ->
    let sg = (match opt_n pr with Some x -> x | None -> four) in
    verdict (duration_sb sg (opt_n w) (n_of_string p) (FOk s)) "not-the-truncated-value-in-the-largest-unit"
  | [_; _; _], None -> verdict false ("outcome:" ^ i)
  | _ -> failwith "durw.sb"

(* float-path streams: the model input is "case \t impl"; the model answers with the implementation's
   string when it is admissible (within double-precision rounding of the exact rule), else with the exact one *)
let admissible exact sbv impl =
  match parse_ok impl with
  | Some s when sbv (Ok s) -> impl
  | _ -> res_s exact

let f64_parts line = let (c, i) = split_sb line in
  match toks c with
  | [b; sg] -> (fval_of_bits b, n_of_string sg, i)
  | _ -> failwith "f64"

let f64_sbv v sg = fun o -> match v with
  | VQ (a, b) -> f64_sb_approx sg a b o
  | _ -> o = format_f64 sg v

let f64m line = let (v, sg, i) = f64_parts line in admissible (format_f64 sg v) (f64_sbv v sg) i
let f64_check line = let (v, sg, i) = f64_parts line in
  match parse_ok i with
  | Some s -> verdict (f64_sbv v sg (Ok s)) "not-within-rounding-of-the-truncated-value"
  | None -> verdict false ("outcome:" ^ i)

let bytes_parts line = let (c, i) = split_sb line in
  match toks c with
  | [b; sg; bin] -> (fval_of_bits b, n_of_string sg, bin = "1", i)
  | _ -> failwith "bytes"

let bytes_sbv v sg bin = fun o -> match v with
  | VQ (a, b) -> bytes_sb bin sg a b o
  | _ -> o = format_bytes bin sg v

let bytesm line = let (v, sg, bin, i) = bytes_parts line in admissible (format_bytes bin sg v) (bytes_sbv v sg bin) i
let bytes_check line = let (v, sg, bin, i) = bytes_parts line in
  match parse_ok i with
  | Some s -> verdict (bytes_sbv v sg bin (Ok s)) "not-within-rounding-of-the-truncated-scaled-value"
  | None -> verdict false ("outcome:" ^ i)

let thr_parts line = let (c, i) = split_sb line in
  match toks c with
  | [k; cnt; p; bin] -> (n_of_string k, n_of_string cnt, n_of_string p, bin = "1", i)
  | _ -> failwith "thr"

let thrm line = let (k, c, p, bin, i) = thr_parts line in
  admissible (display_throughput k c p bin) (throughput_sb k c p bin) i
let thr_check line = let (k, c, p, bin, i) = thr_parts line in
  match parse_ok i with
  | Some s -> verdict (throughput_sb k c p bin (Ok s)) "zero/inf/truncated-scaled-value-rule"
  | None -> verdict false ("outcome:" ^ i)

(* exact model, for inspection: same case lines without the implementation's answer *)
let thr_exact line = match toks line with
  | [k; cnt; p; bin] -> res_s (display_throughput (n_of_string k) (n_of_string cnt) (n_of_string p) (bin = "1"))
  | _ -> failwith "thr.exact"

let dispatch mode line =
  match mode with
  | "dur" -> dur line
  | "durw" -> durw line
  | "dur.sb" -> dur_check line
  | "durw.sb" -> durw_check line
  | "f64" -> f64m line
  | "f64.sb" -> f64_check line
  | "bytes" -> bytesm line
  | "bytes.sb" -> bytes_check line
  | "thr" -> thrm line
  | "thr.sb" -> thr_check line
  | "thr.exact" -> thr_exact line
  | _ -> failwith ("unknown mode " ^ mode)

let () = main dispatch
