(* ---- C11 ---- *)
let tsc line =
  match toks line with
  | [a; b; f] -> res_n (tsc_duration (n_of_string b) (n_of_string a) (n_of_string f))
  | _ -> failwith "tsc"

let dur line =
  match toks line with
  | [s; n] -> res_n (fine_from_duration (n_of_string s) (n_of_string n))
  | _ -> failwith "dur"

let rec repeat x k = if k <= 0 then [] else x :: repeat x (k - 1)

let prec line =
  match toks line with
  | [f; step] ->
    (match tsc_duration (n_of_string step) N0 (n_of_string f) with
     | Ok d ->
       let samples = repeat d 20000 in
       (match measure_precision samples, prec_consumed prec_init samples N0 with
        | Some v, Some c -> "some " ^ string_of_n v ^ " " ^ string_of_n c
        | _ -> "none")
     | Panic p -> "panic " ^ string_of_panic p)
  | _ -> failwith "prec"

let parse_res_n s =
  match toks s with
  | ["ok"; v] -> Some (Ok (n_of_string v))
  | _ -> None   (* panic / crash / anything else: not an Ok value *)


let tsc_check line =
  let (c, i) = split_sb line in
  match toks c, parse_res_n i with
  | [a; b; f], Some r -> verdict (tsc_sb (n_of_string a) (n_of_string b) (n_of_string f) r) "not-the-floor"
  | _, None -> verdict false ("outcome:" ^ i)
  | _ -> failwith "tsc.sb"

let dur_check line =
  let (c, i) = split_sb line in
  match toks c, parse_res_n i with
  | [s; n], Some r -> verdict (dur_sb (n_of_string s) (n_of_string n) r) "not-nanos-times-1000"
  | _, None -> verdict false ("outcome:" ^ i)
  | _ -> failwith "dur.sb"

(* "earlier later" in nanoseconds after a common base instant *)
let osd line =
  match toks line with
  | [a; b] -> res_n (os_duration_since (n_of_string b) (n_of_string a))
  | _ -> failwith "osd"

let osd_check line =
  let (c, i) = split_sb line in
  match toks c, parse_res_n i with
  | [a; b], Some r -> verdict (osd_sb (n_of_string a) (n_of_string b) r) "not-elapsed-nanos-times-1000"
  | _, None -> verdict false ("outcome:" ^ i)
  | _ -> failwith "osd.sb"

let prec_check line =
  let (c, i) = split_sb line in
  match toks c, toks i with
  | [f; step], ["some"; v; _] -> verdict (prec_sb (n_of_string f) (n_of_string step) (Some (n_of_string v))) "precision-not-the-step"
  | [_; _], _ -> verdict false ("outcome:" ^ i)
  | _ -> failwith "prec.sb"


(* ---- precision cache: "K K K ... | f step" where K = T or O; one process per case on the implementation side.
   Model input (history-driven): "<case> # <impl answers>" : an OS measurement cannot be scripted, so the model is
   driven with the first OS answer the implementation gave as the value an OS measurement yields. ---- *)
let kinds_of s = List.map (fun t -> if t = "T" then KTsc else KOs) (List.filter (fun t -> t <> "") (String.split_on_char ' ' s))

let parse_precq case =
  match String.split_on_char '|' case with
  | [ks; fs] ->
    (match List.filter (fun t -> t <> "") (toks (String.trim fs)) with
     | [f; step] -> (kinds_of (String.trim ks), n_of_string f, n_of_string step)
     | _ -> failwith "precq f step")
  | _ -> failwith "precq"

let answers_of s = List.map n_of_string (List.filter (fun t -> t <> "") (toks (String.trim s)))

let precq line =
  (* model input: case # answers *)
  let (case, ans) = match String.index_opt line '#' with
    | Some i -> (String.sub line 0 i, answers_of (String.sub line (i + 1) (String.length line - i - 1)))
    | None -> (line, []) in
  let (ks, f, step) = parse_precq case in
  match tsc_duration step N0 f with
  | Panic p -> "panic " ^ string_of_panic p
  | Ok tscv ->
    let os_first =
      let rec go ks ans = match ks, ans with
        | KOs :: _, a :: _ -> a
        | _ :: ks', _ :: ans' -> go ks' ans'
        | _, _ -> n_of_small 1000 in
      go ks ans in
    let qs = List.map (fun k -> match k with KTsc -> (k, tscv) | KOs -> (k, os_first)) ks in
    "ok " ^ String.concat " " (List.map string_of_n (prec_queries pcache_empty qs))

let precq_check line =
  let (c, i) = split_sb line in
  let (ks, f, step) = parse_precq c in
  match tsc_duration step N0 f, toks i with
  | Ok tscv, "ok" :: ans ->
    verdict (precq_sb ks tscv (List.map n_of_string (List.filter (fun t -> t <> "") ans))) "reported-precision-is-not-the-first-measurement-of-its-own-timer-kind"
  | _, _ -> verdict false ("outcome:" ^ i)

let dispatch mode line =
  match mode with
  | "tsc" | "tscd" | "tscs" -> tsc line
  | "dur" | "durl" -> dur line
  | "osd" | "oss" -> osd line
  | "osd.sb" | "oss.sb" -> osd_check line
  | "prec" -> prec line
  | "tsc.sb" | "tscd.sb" | "tscs.sb" -> tsc_check line
  | "dur.sb" | "durl.sb" -> dur_check line
  | "prec.sb" -> prec_check line
  | "precq" -> precq line
  | "precq.sb" -> precq_check line
  | _ -> failwith ("unknown mode " ^ mode)

let () = main dispatch
