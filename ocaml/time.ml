(* ---- C11 ---- *)
let tsc line =
  match toks line with
  | [a; b; f] -> res_n (tsc_duration (n_of_string b) (n_of_string a) (n_of_string f))
  | _ -> failwith "tsc"

let dur line =
  match toks line with
  | [s; n] -> res_n (fine_from_duration (n_of_string s) (n_of_string n))
  | _ -> failwith "dur"

let rec repeat x k = if k <= 0 then [] else x :: repeat x (k - 1)

let prec line =
  match toks line with
  | [f; step] ->
    (match tsc_duration (n_of_string step) N0 (n_of_string f) with
     | Ok d ->
       let samples = repeat d 20000 in
       (match measure_precision samples, prec_consumed prec_init samples N0 with
        | Some v, Some c -> "some " ^ string_of_n v ^ " " ^ string_of_n c
        | _ -> "none")
     | Panic p -> "panic " ^ string_of_panic p)
  | _ -> failwith "prec"

let parse_res_n s =
  match toks s with
  | ["ok"; v] -> Some (Ok (n_of_string v))
  | _ -> None   (* panic / crash / anything else: not an Ok value *)


let tsc_check line =
  let (c, i) = split_sb line in
  match toks c, parse_res_n i with
  | [a; b; f], Some r -> verdict (tsc_sb (n_of_string a) (n_of_string b) (n_of_string f) r) "not-the-floor"
  | _, None -> verdict false ("outcome:" ^ i)
  | _ -> failwith "tsc.sb"

let dur_check line =
  let (c, i) = split_sb line in
  match toks c, parse_res_n i with
  | [s; n], Some r -> verdict (dur_sb (n_of_string s) (n_of_string n) r) "not-nanos-times-1000"
  | _, None -> verdict false ("outcome:" ^ i)
  | _ -> failwith "dur.sb"

let prec_check line =
  let (c, i) = split_sb line in
  match toks c, toks i with
  | [f; step], ["some"; v; _] -> verdict (prec_sb (n_of_string f) (n_of_string step) (Some (n_of_string v))) "precision-not-the-step"
  | [_; _], _ -> verdict false ("outcome:" ^ i)
  | _ -> failwith "prec.sb"


let dispatch mode line =
  match mode with
  | "tsc" -> tsc line
  | "dur" -> dur line
  | "prec" -> prec line
  | "tsc.sb" -> tsc_check line
  | "dur.sb" -> dur_check line
  | "prec.sb" -> prec_check line
  | _ -> failwith ("unknown mode " ^ mode)

let () = main dispatch
