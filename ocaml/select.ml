(* ---- group "select": C13 (filters + retain), C15 (options) ---- *)

let str = bytes_of_string
let unstr = string_of_bytes

(* "#X"-introduced sections of space-separated tokens; tokens before the first
   marker are in section "". *)
let sections line : (string * string list) list =
  let rec go cur acc out = function
    | [] -> List.rev ((cur, List.rev acc) :: out)
    | t :: r when String.length t = 2 && t.[0] = '#' -> go (String.sub t 1 1) [] ((cur, List.rev acc) :: out) r
    | t :: r -> go cur (t :: acc) out r in
  go "" [] [] (String.split_on_char ' ' line)

let section secs name = try List.assoc name secs with Not_found -> []
let nonempty l = List.filter (fun s -> s <> "") l
let tail1 s = String.sub s 1 (String.length s - 1)

(* "+r:PAT" / "-e:PAT" -> (filter, inclusive) *)
let parse_op tok =
  if String.length tok < 3 || tok.[2] <> ':' then failwith ("bad op " ^ tok);
  let inclusive = (match tok.[0] with '+' -> true | '-' -> false | _ -> failwith "bad op") in
  let text = String.sub tok 3 (String.length tok - 3) in
  match tok.[1] with
  | 'e' -> (FExact (str text), inclusive)
  | 'r' -> (FRegex (str text), inclusive)
  | _ -> failwith "bad op"

let is_regex = function (FRegex _, _) -> true | _ -> false
let pattern_of = function (FRegex p, _) -> unstr p | (FExact p, _) -> unstr p

(* The regex oracle: rows of the truth table recorded by the harness (one per
   op, "x" for exact ops) over the paths of section Q. *)
let make_oracle ops (paths : string list) (rows : string list) : n list -> n list -> bool =
  let tbl = Hashtbl.create 97 in
  if List.length rows <> List.length ops then failwith "truth table: wrong number of rows";
  List.iter2 (fun op row ->
      if is_regex op then begin
        let row = if row = "-" then "" else row in
        if String.length row <> List.length paths then failwith "truth table: wrong row length";
        List.iteri (fun i p -> Hashtbl.replace tbl (pattern_of op, p) (row.[i] = '1')) paths
      end) ops rows;
  fun pat s ->
    match Hashtbl.find_opt tbl (unstr pat, unstr s) with
    | Some b -> b
    | None -> failwith ("oracle-miss pattern=" ^ unstr pat ^ " path=" ^ unstr s)

let bits_s l = if l = [] then "-" else String.concat "" (List.map (fun b -> if b then "1" else "0") l)
let parse_bits s = if s = "-" then [] else List.init (String.length s) (fun i -> s.[i] = '1')

let res_bool = function Ok b -> b | Panic p -> failwith ("panic " ^ string_of_panic p)

(* ---- ismatch: "c #F ops #Q ?paths #T rows" -> "r bits" ---- *)
let ismatch_parse secs =
  let ops = List.map parse_op (nonempty (section secs "F")) in
  let paths = List.map tail1 (nonempty (section secs "Q")) in
  (ops, paths)

let ismatch line =
  let secs = sections line in
  let (ops, paths) = ismatch_parse secs in
  let m = make_oracle ops paths (nonempty (section secs "T")) in
  let rs = List.map (fun p -> fs_query m ops (str p)) paths in
  if List.exists (function Panic _ -> true | _ -> false) rs then
    (match List.find (function Panic _ -> true | _ -> false) rs with Panic p -> "panic " ^ string_of_panic p | _ -> "?")
  else "r " ^ bits_s (List.map res_bool rs)

let ismatch_check line =
  let (c, i) = split_sb line in
  let (ops, paths) = ismatch_parse (sections c) in
  let isecs = sections i in
  match section isecs "" with
  | ["r"; b] ->
    let m = make_oracle ops paths (nonempty (section isecs "T")) in
    let bs = parse_bits b in
    if List.length bs <> List.length paths then verdict false "wrong-number-of-answers" else
    let bad = List.filter (fun (p, b) -> not (is_match_sb m ops (str p) (Ok b))) (List.combine paths bs) in
    (match bad with
     | [] -> "true"
     | (p, b) :: _ -> verdict false (Printf.sprintf "is_match(%s)=%b-but-spec-says-%b" p b (not b)))
  | _ -> verdict false ("outcome:" ^ i)

(* ---- trees: tokens "depth/P|L/name[/A/arg..]" in preorder ---- *)
let parse_node tok =
  match String.split_on_char '/' tok with
  | d :: "P" :: [name] -> (int_of_string d, `P (str name))
  | d :: "L" :: [name] -> (int_of_string d, `L (str name, None))
  | d :: "L" :: name :: "A" :: args -> (int_of_string d, `L (str name, Some (List.map str args)))
  | _ -> failwith ("bad tree token " ^ tok)

let parse_forest toks : tree list =
  let rec forest depth nodes =
    match nodes with
    | (d, `L (n, a)) :: rest when d = depth ->
      let (sibs, rest') = forest depth rest in (Leaf (n, a) :: sibs, rest')
    | (d, `P n) :: rest when d = depth ->
      let (ch, rest1) = forest (depth + 1) rest in
      let (sibs, rest2) = forest depth rest1 in
      (Parent (n, ch) :: sibs, rest2)
    | _ -> ([], nodes) in
  match forest 0 (List.map parse_node toks) with
  | (f, []) -> f
  | _ -> failwith "malformed tree"

let rec print_forest depth (ts : tree list) : string list =
  List.concat_map (fun t ->
      match t with
      | Parent (n, ch) -> (string_of_int depth ^ "/P/" ^ unstr n) :: print_forest (depth + 1) ch
      | Leaf (n, None) -> [string_of_int depth ^ "/L/" ^ unstr n]
      | Leaf (n, Some args) -> [String.concat "/" ((string_of_int depth ^ "/L/" ^ unstr n ^ "/A") :: List.map unstr args)]) ts

(* ---- retain: model input "c #F ops #U tree #Q ?paths #T rows" -> "K tree" ---- *)
let retain_m line =
  let secs = sections line in
  let ops = List.map parse_op (nonempty (section secs "F")) in
  let paths = List.map tail1 (nonempty (section secs "Q")) in
  let m = make_oracle ops paths (nonempty (section secs "T")) in
  let ts = parse_forest (nonempty (section secs "U")) in
  match select m ops ts with
  | Ok out ->
    String.concat " " ("K" :: print_forest 0 out)
    ^ Printf.sprintf " #N %d %d" (List.length (cases out)) (List.length (cases ts))
  | Panic p -> "panic " ^ string_of_panic p

let retain_check line =
  let (c, i) = split_sb line in
  let ops = List.map parse_op (nonempty (section (sections c) "F")) in
  let isecs = sections i in
  match section isecs "" with
  | "K" :: kept ->
    let paths = List.map tail1 (nonempty (section isecs "Q")) in
    let m = make_oracle ops paths (nonempty (section isecs "T")) in
    let ts = parse_forest (nonempty (section isecs "U")) in
    let out = parse_forest (nonempty kept) in
    let sel p = is_match_spec m ops p in
    let answers = (match nonempty (section isecs "M") with [b] -> parse_bits b | _ -> []) in
    if not (retain_sb sel ts out) then begin
      let want = List.map unstr (List.filter sel (cases ts)) and got = List.map unstr (cases out) in
      if want <> got then
        verdict false (Printf.sprintf "kept-cases=[%s]-selected-cases=[%s]" (String.concat "," got) (String.concat "," want))
      else verdict false "empty-group-left-or-wrong-inner-nodes"
    end else if List.length answers <> List.length paths then verdict false "wrong-number-of-is_match-answers"
    else
      (match List.filter (fun (p, b) -> not (is_match_sb m ops (str p) (Ok b))) (List.combine paths answers) with
       | [] -> "true"
       | (p, b) :: _ -> verdict false (Printf.sprintf "is_match(%s)=%b-but-spec-says-%b" p b (not b)))
  | _ -> verdict false ("outcome:" ^ i)

(* ---- e2e: the real benchmark binary.  Model input as for retain; the
   observables are sets: executed cases, tersely listed cases, listed entries. ---- *)
let qtoks l = String.concat " " (List.map (fun s -> "?" ^ s) l)
let sorted l = List.sort_uniq compare l

let e2e_line cs leaves = "X " ^ qtoks cs ^ " #L " ^ qtoks cs ^ " #S " ^ qtoks leaves

let e2e_m line =
  let secs = sections line in
  let ops = List.map parse_op (nonempty (section secs "F")) in
  let paths = List.map tail1 (nonempty (section secs "Q")) in
  let m = make_oracle ops paths (nonempty (section secs "T")) in
  let ts = parse_forest (nonempty (section secs "U")) in
  match select m ops ts with
  | Ok out ->
    e2e_line (sorted (List.map unstr (cases out))) (sorted (List.map (fun (l, _) -> unstr l) (leaf_cases out)))
  | Panic p -> "panic " ^ string_of_panic p

let e2e_check line =
  let (c, i) = split_sb line in
  let ops = List.map parse_op (nonempty (section (sections c) "F")) in
  let isecs = sections i in
  match section isecs "" with
  | "X" :: ran ->
    let paths = List.map tail1 (nonempty (section isecs "Q")) in
    let m = make_oracle ops paths (nonempty (section isecs "T")) in
    let ts = parse_forest (nonempty (section isecs "U")) in
    let sel p = is_match_spec m ops p in
    let want = sorted (List.map unstr (List.filter sel (cases ts))) in
    let want_leaves = sorted (List.filter_map (fun (l, cs) -> if List.exists sel cs then Some (unstr l) else None) (leaf_cases ts)) in
    let got s = sorted (List.map tail1 (nonempty s)) in
    let diff a b = String.concat "," (List.filter (fun x -> not (List.mem x b)) a) in
    let ran = got ran and listed = got (section isecs "L") and leaves = got (section isecs "S") in
    if ran <> want then verdict false (Printf.sprintf "executed-but-not-selected=[%s]-selected-but-not-executed=[%s]" (diff ran want) (diff want ran))
    else if listed <> want then verdict false (Printf.sprintf "listed-but-not-selected=[%s]-selected-but-not-listed=[%s]" (diff listed want) (diff want listed))
    else if leaves <> want_leaves then verdict false (Printf.sprintf "list-entries-wrong:extra=[%s]-missing=[%s]" (diff leaves want_leaves) (diff want_leaves leaves))
    else "true"
  | _ -> verdict false ("outcome:" ^ i)

let dispatch mode line =
  match mode with
  | "ismatch" -> ismatch line
  | "ismatch.sb" -> ismatch_check line
  | "retain" -> retain_m line
  | "retain.sb" -> retain_check line
  | "e2e" -> e2e_m line
  | "e2e.sb" -> e2e_check line
  | _ -> failwith ("unknown mode " ^ mode)

let () = main dispatch
