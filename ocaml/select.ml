(* ---- group "select": C13 (filters + retain), C15 (options) ---- *)

let str = bytes_of_string
let unstr = string_of_bytes

(* "#X"-introduced sections of space-separated tokens; tokens before the first
   marker are in section "". *)
let sections line : (string * string list) list =
  let rec go cur acc out = function
    | [] -> List.rev ((cur, List.rev acc) :: out)
    | t :: r when String.length t = 2 && t.[0] = '#' -> go (String.sub t 1 1) [] ((cur, List.rev acc) :: out) r
    | t :: r -> go cur (t :: acc) out r in
  go "" [] [] (String.split_on_char ' ' line)

let section secs name = try List.assoc name secs with Not_found -> []
let nonempty l = List.filter (fun s -> s <> "") l
let tail1 s = String.sub s 1 (String.length s - 1)

(* "+r:PAT" / "-e:PAT" -> (filter, inclusive) *)
let parse_op tok =
  if String.length tok < 3 || tok.[2] <> ':' then failwith ("bad op " ^ tok);
  let inclusive = (match tok.[0] with '+' -> true | '-' -> false | _ -> failwith "bad op") in
  let text = String.sub tok 3 (String.length tok - 3) in
  match tok.[1] with
  | 'e' -> (FExact (str text), inclusive)
  | 'r' -> (FRegex (str text), inclusive)
  (* a pre-built Regex with a RegexBuilder flag: a different regex from the plain pattern; the oracle row is recorded
     from that very Regex value, the model only needs a distinct key *)
  | ('i' | 'm' | 's' | 'U') as k -> (FRegex (str (Printf.sprintf "(?%c)%s" k text)), inclusive)
  | _ -> failwith "bad op"

let is_regex = function (FRegex _, _) -> true | _ -> false
let pattern_of = function (FRegex p, _) -> unstr p | (FExact p, _) -> unstr p

(* The regex oracle: rows of the truth table recorded by the harness (one per
   op, "x" for exact ops) over the paths of section Q. *)
let make_oracle ops (paths : string list) (rows : string list) : n list -> n list -> bool =
  let tbl = Hashtbl.create 97 in
  if List.length rows <> List.length ops then failwith "truth table: wrong number of rows";
  List.iter2 (fun op row ->
      if is_regex op then begin
        let row = if row = "-" then "" else row in
        if String.length row <> List.length paths then failwith "truth table: wrong row length";
        List.iteri (fun i p -> Hashtbl.replace tbl (pattern_of op, p) (row.[i] = '1')) paths
      end) ops rows;
  fun pat s ->
    match Hashtbl.find_opt tbl (unstr pat, unstr s) with
    | Some b -> b
    | None -> failwith ("oracle-miss pattern=" ^ unstr pat ^ " path=" ^ unstr s)

let bits_s l = if l = [] then "-" else String.concat "" (List.map (fun b -> if b then "1" else "0") l)
let parse_bits s = if s = "-" then [] else List.init (String.length s) (fun i -> s.[i] = '1')

let res_bool = function Ok b -> b | Panic p -> failwith ("panic " ^ string_of_panic p)

(* ---- ismatch: "c #F ops #Q ?paths #T rows" -> "r bits" ---- *)
let ismatch_parse secs =
  let ops = List.map parse_op (nonempty (section secs "F")) in
  let paths = List.map tail1 (nonempty (section secs "Q")) in
  (ops, paths)

let ismatch line =
  let secs = sections line in
  let (ops, paths) = ismatch_parse secs in
  let m = make_oracle ops paths (nonempty (section secs "T")) in
  let rs = List.map (fun p -> fs_query m ops (str p)) paths in
  if List.exists (function Panic _ -> true | _ -> false) rs then
    (match List.find (function Panic _ -> true | _ -> false) rs with Panic p -> "panic " ^ string_of_panic p | _ -> "?")
  else "r " ^ bits_s (List.map res_bool rs)

let ismatch_check line =
  let (c, i) = split_sb line in
  let (ops, paths) = ismatch_parse (sections c) in
  let isecs = sections i in
  match section isecs "" with
  | ["r"; b] ->
    let m = make_oracle ops paths (nonempty (section isecs "T")) in
    let bs = parse_bits b in
    if List.length bs <> List.length paths then verdict false "wrong-number-of-answers" else
    let bad = List.filter (fun (p, b) -> not (is_match_sb m ops (str p) (Ok b))) (List.combine paths bs) in
    (match bad with
     | [] -> "true"
     | (p, b) :: _ -> verdict false (Printf.sprintf "is_match(%s)=%b-but-spec-says-%b" p b (not b)))
  | _ -> verdict false ("outcome:" ^ i)

(* ---- trees: tokens "depth/P|L/name[/A/arg..]" in preorder ---- *)
let parse_node tok =
  match String.split_on_char '/' tok with
  | d :: "P" :: [name] -> (int_of_string d, `P (str name))
  | d :: "L" :: [name] -> (int_of_string d, `L (str name, None))
  | d :: "L" :: name :: "A" :: args -> (int_of_string d, `L (str name, Some (List.map str args)))
  | _ -> failwith ("bad tree token " ^ tok)

let parse_forest toks : tree list =
  let rec forest depth nodes =
    match nodes with
    | (d, `L (n, a)) :: rest when d = depth ->
      let (sibs, rest') = forest depth rest in (Leaf (n, a) :: sibs, rest')
    | (d, `P n) :: rest when d = depth ->
      let (ch, rest1) = forest (depth + 1) rest in
      let (sibs, rest2) = forest depth rest1 in
      (Parent (n, ch) :: sibs, rest2)
    | _ -> ([], nodes) in
  match forest 0 (List.map parse_node toks) with
  | (f, []) -> f
  | _ -> failwith "malformed tree"

let rec print_forest depth (ts : tree list) : string list =
  List.concat_map (fun t ->
      match t with
      | Parent (n, ch) -> (string_of_int depth ^ "/P/" ^ unstr n) :: print_forest (depth + 1) ch
      | Leaf (n, None) -> [string_of_int depth ^ "/L/" ^ unstr n]
      | Leaf (n, Some args) -> [String.concat "/" ((string_of_int depth ^ "/L/" ^ unstr n ^ "/A") :: List.map unstr args)]) ts

(* ---- retain: model input "c #F ops #U tree #Q ?paths #T rows" -> "K tree" ---- *)
let retain_m line =
  let secs = sections line in
  let ops = List.map parse_op (nonempty (section secs "F")) in
  let paths = List.map tail1 (nonempty (section secs "Q")) in
  let m = make_oracle ops paths (nonempty (section secs "T")) in
  let ts = parse_forest (nonempty (section secs "U")) in
  match select m ops ts with
  | Ok out ->
    String.concat " " ("K" :: print_forest 0 out)
    ^ Printf.sprintf " #N %d %d" (List.length (cases out)) (List.length (cases ts))
  | Panic p -> "panic " ^ string_of_panic p

let retain_check line =
  let (c, i) = split_sb line in
  let ops = List.map parse_op (nonempty (section (sections c) "F")) in
  let isecs = sections i in
  match section isecs "" with
  | "K" :: kept ->
    let paths = List.map tail1 (nonempty (section isecs "Q")) in
    let m = make_oracle ops paths (nonempty (section isecs "T")) in
    let ts = parse_forest (nonempty (section isecs "U")) in
    let out = parse_forest (nonempty kept) in
    let sel p = is_match_spec m ops p in
    let answers = (match nonempty (section isecs "M") with [b] -> parse_bits b | _ -> []) in
    if not (retain_sb sel ts out) then begin
      let want = List.map unstr (List.filter sel (cases ts)) and got = List.map unstr (cases out) in
      if want <> got then
        verdict false (Printf.sprintf "kept-cases=[%s]-selected-cases=[%s]" (String.concat "," got) (String.concat "," want))
      else verdict false "empty-group-left-or-wrong-inner-nodes"
    end else if List.length answers <> List.length paths then verdict false "wrong-number-of-is_match-answers"
    else
      (match List.filter (fun (p, b) -> not (is_match_sb m ops (str p) (Ok b))) (List.combine paths answers) with
       | [] -> "true"
       | (p, b) :: _ -> verdict false (Printf.sprintf "is_match(%s)=%b-but-spec-says-%b" p b (not b)))
  | _ -> verdict false ("outcome:" ^ i)

(* ---- e2e: the real benchmark binary.  Model input as for retain; the
   observables are sets: executed cases, tersely listed cases, listed entries. ---- *)
let qtoks l = String.concat " " (List.map (fun s -> "?" ^ s) l)
let sorted l = List.sort_uniq compare l

(* cases keep their multiplicity (two arguments with the same label are two cases) *)
let sorted_multi l = List.sort compare l
let e2e_line cs leaves = "X " ^ qtoks cs ^ " #L " ^ qtoks cs ^ " #S " ^ qtoks leaves

let e2e_m line =
  let secs = sections line in
  let ops = List.map parse_op (nonempty (section secs "F")) in
  let paths = List.map tail1 (nonempty (section secs "Q")) in
  let m = make_oracle ops paths (nonempty (section secs "T")) in
  let ts = parse_forest (nonempty (section secs "U")) in
  match select m ops ts with
  | Ok out ->
    e2e_line (sorted_multi (List.map unstr (cases out))) (sorted (List.map (fun (l, _) -> unstr l) (leaf_cases out)))
  | Panic p -> "panic " ^ string_of_panic p

let e2e_check line =
  let (c, i) = split_sb line in
  let ops = List.map parse_op (nonempty (section (sections c) "F")) in
  let isecs = sections i in
  match section isecs "" with
  | "X" :: ran ->
    let paths = List.map tail1 (nonempty (section isecs "Q")) in
    let m = make_oracle ops paths (nonempty (section isecs "T")) in
    let ts = parse_forest (nonempty (section isecs "U")) in
    let sel p = is_match_spec m ops p in
    let want = sorted_multi (List.map unstr (List.filter sel (cases ts))) in
    let want_leaves = sorted (List.filter_map (fun (l, cs) -> if List.exists sel cs then Some (unstr l) else None) (leaf_cases ts)) in
    let got s = sorted (List.map tail1 (nonempty s)) and got_multi s = sorted_multi (List.map tail1 (nonempty s)) in
    (* multiset difference *)
    let diff a b =
      let rec remove x = function [] -> None | y :: r -> if x = y then Some r else Option.map (fun r' -> y :: r') (remove x r) in
      let (d, _) = List.fold_left (fun (acc, rest) x -> match remove x rest with Some r -> (acc, r) | None -> (x :: acc, rest)) ([], b) a in
      String.concat "," (List.rev d) in
    let ran = got_multi ran and listed = got_multi (section isecs "L") and leaves = got (section isecs "S") in
    if ran <> want then verdict false (Printf.sprintf "executed-but-not-selected=[%s]-selected-but-not-executed=[%s]" (diff ran want) (diff want ran))
    else if listed <> want then verdict false (Printf.sprintf "listed-but-not-selected=[%s]-selected-but-not-listed=[%s]" (diff listed want) (diff want listed))
    else if leaves <> want_leaves then verdict false (Printf.sprintf "list-entries-wrong:extra=[%s]-missing=[%s]" (diff leaves want_leaves) (diff want_leaves leaves))
    else "true"
  | _ -> verdict false ("outcome:" ^ i)

(* ==================================================================== C15 *)
let kinds = [("cb", Bytes); ("cc", Chars); ("cy", Cycles); ("ci", Items)]
let dotlist s = List.map n_of_string (List.filter (fun x -> x <> "") (String.split_on_char '.' s))
let show_list l = String.concat "" (List.map (fun x -> string_of_n x ^ ".") l)

(* "sc=3,ss=2,th=2.1.,mn=..,mx=..,se=1,ig=0,cb=..,cc=..,cy=..,ci=.." ("-" = no options at all) *)
let parse_fields spec : options =
  List.fold_left (fun o kv ->
      if kv = "" then o else
      match String.index_opt kv '=' with
      | None -> failwith ("bad field " ^ kv)
      | Some i ->
        let k = String.sub kv 0 i and v = String.sub kv (i + 1) (String.length kv - i - 1) in
        if v = "-" then o else
        let num () = Some (VNum (n_of_string v)) and boolean () = Some (VBool (v = "1")) in
        (match k with
         | "sc" -> set_field FSampleCount (num ()) o
         | "ss" -> set_field FSampleSize (num ()) o
         | "th" -> set_field FThreads (Some (VList (dotlist v))) o
         | "mn" -> set_field FMinTime (num ()) o
         | "mx" -> set_field FMaxTime (num ()) o
         | "se" -> set_field FSkipExtTime (boolean ()) o
         | "ig" -> set_field FIgnore (boolean ()) o
         | _ -> (match List.assoc_opt k kinds with
             | Some kind -> set_field (FCounter kind) (num ()) o
             | None -> failwith ("bad field " ^ k))))
    o_default (String.split_on_char ',' spec)

let parse_level spec : options option = if spec = "-" then None else Some (parse_fields spec)

let show_options (o : options) : string =
  let on f = function Some x -> f x | None -> "-" in
  let b x = if x then "1" else "0" in
  String.concat " " ([
    "sc=" ^ on string_of_n o.o_sample_count; "ss=" ^ on string_of_n o.o_sample_size;
    "th=" ^ on show_list o.o_threads; "mn=" ^ on string_of_n o.o_min_time; "mx=" ^ on string_of_n o.o_max_time;
    "se=" ^ on b o.o_skip_ext_time; "ig=" ^ on b o.o_ignore ]
    @ List.map (fun (name, k) -> name ^ "=" ^ on string_of_n (cs_get o.o_counters k)) kinds)

(* a shown option set ("sc=4 ss=- ...") back into a record *)
let parse_shown toks : options = parse_fields (String.concat "," toks)

let split_kv tok = match String.index_opt tok ':' with
  | Some i -> (String.sub tok 0 i, String.sub tok (i + 1) (String.length tok - i - 1))
  | None -> failwith ("bad level " ^ tok)

let parse_stack secs =
  let groups = ref [] and bench = ref None and runner = ref o_default in
  List.iter (fun tok ->
      let (k, spec) = split_kv tok in
      match k with
      | "G" -> groups := parse_level spec :: !groups
      | "B" -> bench := parse_level spec
      | "R" -> runner := (match parse_level spec with Some o -> o | None -> o_default)
      | _ -> failwith "bad level kind") (nonempty (section secs "L"));
  (!runner, List.rev !groups, !bench)

let parse_counter_call secs =
  match nonempty (section secs "C") with
  | [tok] -> (match String.index_opt tok '=' with
      | Some i -> Some (List.assoc (String.sub tok 0 i) kinds, n_of_string (String.sub tok (i + 1) (String.length tok - i - 1)))
      | None -> failwith "bad counter call")
  | _ -> None

let show_collection coll = String.concat " " (List.map (fun (name, k) -> name ^ "=" ^ show_list (coll k)) kinds)

let ovw line =
  let secs = sections line in
  let (runner, groups, bench) = parse_stack secs in
  let r = resolve runner groups bench in
  match parse_counter_call secs with
  | None -> show_options r
  | Some (k, c) -> show_options r ^ " #K " ^ show_collection (set_counter (to_collection r.o_counters) k c)

let ovw_check line =
  let (c, i) = split_sb line in
  let secs = sections c in
  let (runner, groups, bench) = parse_stack secs in
  let isecs = sections i in
  match nonempty (section isecs "") with
  | toks when List.length toks = 11 && List.for_all (fun t -> String.contains t '=') toks ->
    let out = parse_shown toks in
    if not (resolve_sb runner groups bench out) then verdict false "some-field-is-not-the-first-set-value-in-runner,bench,innermost..outermost-group"
    else (match parse_counter_call secs with
        | None -> "true"
        | Some (k, cnt) ->
          (* the Bencher starts from the resolved counters; Bencher::counter replaces its own kind only *)
          let want = List.map (fun (name, k') -> name ^ "=" ^ show_list (if k' = k then [cnt] else to_collection out.o_counters k')) kinds in
          let got = nonempty (section isecs "K") in
          verdict (want = got) ("bencher-counters-want:" ^ String.concat "," want))
  | _ -> verdict false ("outcome:" ^ i)

(* ---- into: IntoThreads ---- *)
let into_parse line = match toks line with
  | "v" :: l -> (`V, List.map n_of_string (nonempty l))
  | ["u"; x] -> (`U, [n_of_string x])
  | ["b"; x] -> (`B, [n_of_string x])
  | _ -> failwith "into"

let into line =
  match into_parse line with
  | (`V, l) -> show_list (set_threads l) ^ "|"
  | (`U, [x]) -> show_list (into_threads_usize x) ^ "|"
  | (`B, [x]) -> show_list (into_threads_bool (x <> N0)) ^ "|"
  | _ -> failwith "into"

let into_check line =
  let (c, i) = split_sb line in
  if String.length i = 0 || i.[String.length i - 1] <> '|' then verdict false ("outcome:" ^ i) else
  let out = dotlist (String.sub i 0 (String.length i - 1)) in
  match into_parse c with
  | (`V, l) -> verdict (strictly_increasing out && List.for_all (fun x -> mem_N x out) l && List.for_all (fun x -> mem_N x l) out)
                 "not-the-sorted-duplicate-free-list-of-the-inputs"
  | (`U, [x]) -> verdict (out = [x]) "scalar-not-kept"
  | (`B, [x]) -> verdict (out = [if x <> N0 then N0 else n_of_small 1]) "bool:true=0(parallelism),false=1"
  | _ -> failwith "into.sb"

(* ---- opt: the real binary in bench mode.
   "p #R F:spec E:spec P:spec Q:spec #I none|ignored|include #P parallelism #B path|lvl|..|benchlvl .." ---- *)
let parse_mode = function "none" -> RunNo | "ignored" -> RunOnly | "include" -> RunYes | m -> failwith ("bad mode " ^ m)

let kind_letter = function Bytes -> "B" | Chars -> "C" | Cycles -> "Y" | Items -> "I"

let show_observed path (ob : observed) =
  if ob.ob_ignored then path ^ "=I" else
  let on = function Some x -> string_of_n x | None -> "?" in
  let rows = List.map (fun ((t, samples), iters) ->
      (if ob.ob_branches then string_of_n t else "-") ^ ":" ^ string_of_n samples ^ ":" ^ on iters) ob.ob_rows in
  let units = if ob.ob_no_samples then "?u" else if ob.ob_kinds = [] then "-" else String.concat "" (List.map kind_letter ob.ob_kinds) in
  path ^ "=R/" ^ String.concat ";" rows ^ "/" ^ units ^ "/" ^ on ob.ob_calls

(* "P" as an element of a thread list stands for the probed parallelism *)
let subst_p par tok =
  let n = String.length tok in
  let b = Buffer.create (n + 8) in
  String.iteri (fun i ch ->
      if ch = 'P' && i > 0 && (tok.[i - 1] = '=' || tok.[i - 1] = '.') && i + 1 < n && tok.[i + 1] = '.'
      then Buffer.add_string b par else Buffer.add_char b ch) tok;
  Buffer.contents b

let opt_gen use_spec line =
  let secs = sections line in
  let par_s = (match nonempty (section secs "P") with [p] -> p | _ -> failwith "no parallelism") in
  let src = List.map (fun t -> split_kv (subst_p par_s t)) (nonempty (section secs "R")) in
  let get k = match List.assoc_opt k src with Some s -> parse_fields s | None -> o_default in
  let runner = (if use_spec then spec_runner else runner_level) (get "P") (get "F") (get "E") (get "Q") in
  let mode = parse_mode (match nonempty (section secs "I") with [m] -> m | _ -> "none") in
  let par = n_of_string (match nonempty (section secs "P") with [p] -> p | _ -> failwith "no parallelism") in
  let entries = List.map (fun tok ->
      match String.split_on_char '|' tok with
      | path :: lvls when lvls <> [] ->
        let rl = List.rev lvls in
        (* attribute-level thread lists went through IntoThreads *)
        let norm = function Some o -> Some (norm_threads o) | None -> None in
        let bench = norm (parse_level (List.hd rl)) and groups = List.map (fun l -> norm (parse_level l)) (List.rev (List.tl rl)) in
        let eff = (if use_spec then spec_effective else resolve) runner groups bench in
        show_observed path (observe par mode eff)
      | _ -> failwith ("bad bench entry " ^ tok)) (nonempty (section secs "B")) in
  String.concat " " entries

(* wildcard comparison: "?" in the expectation stands for any number, "?u" for any unit letters *)
let matches_expected want got =
  let nw = String.length want and ng = String.length got in
  let rec go i j =
    if i = nw then j = ng
    else if want.[i] = '?' && i + 1 < nw && want.[i + 1] = 'u' then begin
      let rec skip j' = go (i + 2) j' || (j' < ng && (got.[j'] = '-' || (got.[j'] >= 'A' && got.[j'] <= 'Z')) && skip (j' + 1)) in skip j end
    else if want.[i] = '?' then begin
      let rec digits j' = if j' < ng && got.[j'] >= '0' && got.[j'] <= '9' then digits (j' + 1) else j' in
      let e = digits j in e > j && go (i + 1) e end
    else j < ng && want.[i] = got.[j] && go (i + 1) (j + 1) in
  go 0 0

(* the terse listing (NEXTEST=1 --list --format terse) prints exactly the benchmarks that are not skipped *)
let listed_of entries =
  List.filter_map (fun tok ->
      match String.index_opt tok '=' with
      | Some k when String.sub tok (k + 1) (String.length tok - k - 1) <> "I" -> Some (String.sub tok 0 k)
      | _ -> None) (List.filter (fun t -> t <> "") (String.split_on_char ' ' entries))

let opt_check line =
  let (c, i) = split_sb line in
  let isecs = sections i in
  match nonempty (section isecs "") with
  | "O" :: got ->
    let head = (match String.index_opt c '#' with Some k -> String.sub c 0 k | None -> c) in
    ignore head;
    let minput = c ^ " #P " ^ String.concat " " (section isecs "P") ^ " #B " ^ String.concat " " (section isecs "B") in
    let want = String.split_on_char ' ' (opt_gen true minput) in
    if List.length want <> List.length got then verdict false "different-set-of-benchmarks" else
    (match List.filter (fun (w, g) -> not (matches_expected w g)) (List.combine want got) with
     | [] ->
       let want_listed = listed_of (String.concat " " want) and listed = nonempty (section isecs "L") in
       let diff a b = String.concat "," (List.filter (fun x -> not (List.mem x b)) a) in
       verdict (want_listed = listed)
         (Printf.sprintf "terse-listing:listed-but-skipped-in-a-run=[%s]-run-but-not-listed=[%s]" (diff listed want_listed) (diff want_listed listed))
     | (w, g) :: _ -> verdict false ("expected:" ^ w ^ "-observed:" ^ g))
  | _ -> verdict false ("outcome:" ^ i)

(* ---- tim: skip_ext_time made visible by coarse timing, and the runner-only bytes_format.
   "s #R F:se=1,bf=0 E:.. P:.. Q:.. #B path|lvl|..|benchlvl .." -> "T path=S|N .. #Z bin|dec" ---- *)
let split_bf spec : string * bool option =
  let kvs = List.filter (fun x -> x <> "") (String.split_on_char ',' spec) in
  let bf = List.fold_left (fun acc kv -> if String.length kv > 3 && String.sub kv 0 3 = "bf=" then Some (kv = "bf=1") else acc) None kvs in
  (String.concat "," (List.filter (fun kv -> not (String.length kv > 3 && String.sub kv 0 3 = "bf=")) kvs), bf)

let tim_gen use_spec line =
  let secs = sections line in
  let src = List.map (fun t -> let (k, spec) = split_kv t in (k, split_bf spec)) (nonempty (section secs "R")) in
  let get k = match List.assoc_opt k src with Some (s, _) -> parse_fields s | None -> o_default in
  let bf k = match List.assoc_opt k src with Some (_, b) -> b | None -> None in
  let runner = (if use_spec then spec_runner else runner_level) (get "P") (get "F") (get "E") (get "Q") in
  let binary =
    if use_spec then (match first_some [bf "Q"; bf "F"; bf "E"; bf "P"] with Some b -> b | None -> false)
    else bytes_format_level (bf "P") (bf "F") (bf "E") (bf "Q") in
  let entries = List.map (fun tok ->
      match String.split_on_char '|' tok with
      | path :: lvls when lvls <> [] ->
        let rl = List.rev lvls in
        let bench = parse_level (List.hd rl) and groups = List.map parse_level (List.rev (List.tl rl)) in
        let eff = (if use_spec then spec_effective else resolve) runner groups bench in
        (* "kind@path": which effective option this benchmark makes visible *)
        (match String.index_opt path '@' with
         | Some 2 when String.sub path 0 2 = "mn" ->
           (* a zero budget: never called ("Z"); otherwise called again only under a floor *)
           String.sub path 3 (String.length path - 3) ^ "=" ^
           (match eff.o_max_time, eff.o_min_time with Some N0, _ -> "Z" | _, Some x when x <> N0 -> "F" | _ -> "n")
         | Some 2 when String.sub path 0 2 = "mx" ->
           String.sub path 3 (String.length path - 3) ^ "=" ^ (match eff.o_max_time with Some N0 -> "Z" | Some _ -> "C" | None -> "n")
         | _ -> path ^ "=" ^ (if effective_skip_ext eff then "S" else "N"))
      | _ -> failwith ("bad bench entry " ^ tok)) (nonempty (section secs "B")) in
  "T " ^ String.concat " " entries ^ " #Z " ^ (if binary then "bin" else "dec")

let tim_check line =
  let (c, i) = split_sb line in
  match String.index_opt i '#' with
  | Some _ when String.length i > 2 && String.sub i 0 2 = "T " ->
    let isecs = sections i in
    let want = tim_gen true (c ^ " #B " ^ String.concat " " (section isecs "B")) in
    let got = "T " ^ String.concat " " (List.tl (nonempty (section isecs ""))) ^ " #Z " ^ String.concat " " (nonempty (section isecs "Z")) in
    verdict (want = got) ("expected:" ^ String.concat "," (String.split_on_char ' ' want))
  | _ -> verdict false ("outcome:" ^ i)

(* ---- psec: ParsedSeconds::from_str.  "label text" -> "ok secs nanos" | "rejected" ---- *)
let unsp s =
  (* U+2423 (e2 90 a3) stands for a space *)
  let b = Buffer.create (String.length s) in
  let n = String.length s in
  let i = ref 0 in
  while !i < n do
    if !i + 2 < n && s.[!i] = '\xe2' && s.[!i + 1] = '\x90' && s.[!i + 2] = '\xa3' then (Buffer.add_char b ' '; i := !i + 3)
    else (Buffer.add_char b s.[!i]; incr i)
  done;
  Buffer.contents b

let psec_text line =
  match String.index_opt line ' ' with
  | Some i -> unsp (String.sub line (i + 1) (String.length line - i - 1))
  | None -> ""

let psec line =
  match decimal_nanos (str (psec_text line)) with
  | Some (s, n) -> "ok " ^ string_of_n s ^ " " ^ string_of_n n
  | None -> "rejected"

let psec_check line =
  let (c, i) = split_sb line in
  let out = (match toks i with
      | ["ok"; s; n] -> Some (Some (n_of_string s, n_of_string n))
      | ["rejected"] -> Some None
      | _ -> None) in
  match out with
  | Some o -> verdict (parse_seconds_sb (str (psec_text c)) o) "not-the-exact-decimal-value-in-nanoseconds"
  | None -> verdict false ("outcome:" ^ i)

(* ---- ropt: runner-level options of a fresh process.  "r #R F:.. E:.. P:.. Q:.."; in F and E the values of mn/mx are
   decimal text "T<text>" (they go through ParsedSeconds), in P and Q nanoseconds -> shown options + "#N min max" ---- *)
exception Rejected
(* A value "X<text>" is text the option's value parser refuses (e.g. sample-count "abc"); "T<text>" for mn/mx is decimal
   text.  Only a value that is actually used is ever parsed. *)
let ropt_fields spec : options =
  let conv kv =
    match String.index_opt kv '=' with
    | Some i when i + 1 < String.length kv && kv.[i + 1] = 'X' -> raise Rejected
    | _ ->
      if String.length kv > 4 && (String.sub kv 0 4 = "mn=T" || String.sub kv 0 4 = "mx=T") then begin
        let text = unsp (String.sub kv 4 (String.length kv - 4)) in
        match decimal_nanos (str text) with
        | Some (s, n) -> String.sub kv 0 3 ^ string_of_n (N.add (N.mul s (n_of_string "1000000000")) n)
        | None -> raise Rejected
      end else kv in
  parse_fields (String.concat "," (List.map conv (List.filter (fun x -> x <> "") (String.split_on_char ',' spec))))

let key_of kv = match String.index_opt kv '=' with Some i -> String.sub kv 0 i | None -> kv

(* clap looks at the DIVAN_* variable of an option only when the option's flag is absent: a variable shadowed by a
   flag is neither used nor validated *)
let unshadowed_env flags env =
  let fkeys = List.map key_of (List.filter (fun x -> x <> "") (String.split_on_char ',' flags)) in
  String.concat "," (List.filter (fun kv -> kv <> "" && not (List.mem (key_of kv) fkeys)) (String.split_on_char ',' env))

let ropt_gen use_spec line =
  let secs = sections line in
  let src = List.map split_kv (nonempty (section secs "R")) in
  let raw k = match List.assoc_opt k src with Some s -> s | None -> "" in
  try
    let flags = ropt_fields (raw "F") in
    let env = ropt_fields (unshadowed_env (raw "F") (raw "E")) in
    let runner = (if use_spec then spec_runner else runner_level) (ropt_fields (raw "P")) flags env (ropt_fields (raw "Q")) in
    let (mn, mx) = time_limits runner in
    show_options runner ^ " #N " ^ string_of_n mn ^ " " ^ string_of_n mx
  with Rejected -> "rejected"

let ropt_check line =
  let (c, i) = split_sb line in
  verdict (ropt_gen true c = i) ("expected:" ^ String.concat "," (String.split_on_char ' ' (ropt_gen true c)))

(* ---- rcfg: the runner's scalar settings and filter set, fresh process.
   "c #A tokens #P calls #Q calls #F ops #O origins [#X ?paths #T rows]" -> "action=.. .. ignored=.. #M bits" | "rejected" ---- *)
let sorting_of = function "kind" -> SKind | "name" -> SName | "location" -> SLocation | s -> failwith ("bad sort " ^ s)
let show_sorting = function SKind -> "kind" | SName -> "name" | SLocation -> "location"
let timer_of = function "os" -> TOs | "tsc" -> TTsc | s -> failwith ("bad timer " ^ s)
let color_of = function "auto" -> CAuto | "always" -> CAlways | "never" -> CNever | s -> failwith ("bad color " ^ s)
let binary_of = function "binary" -> true | "decimal" -> false | s -> failwith ("bad bytes format " ^ s)

let kvs toks = List.map (fun t -> match String.index_opt t '=' with
    | Some i -> (String.sub t 0 i, String.sub t (i + 1) (String.length t - i - 1))
    | None -> (t, "")) toks

let parse_cli toks : cli =
  let kv = kvs toks in
  let has k = List.mem_assoc k kv and get f k = Option.map f (List.assoc_opt k kv) in
  { a_bench = has "bench"; a_test = has "test"; a_list = has "list";
    a_format_terse = get (fun v -> v = "terse") "format"; a_nextest = has "nextest";
    a_sort = get sorting_of "sort"; a_sortr = get sorting_of "sortr";
    a_sortr_last = (match List.assoc_opt "order" kv with Some "rs" -> false | _ -> true);
    e_sort = get sorting_of "esort"; e_sortr = get sorting_of "esortr";
    a_timer = get timer_of "timer"; e_timer = get timer_of "etimer";
    a_color = get color_of "color";
    a_bytes_binary = get binary_of "bytes"; e_bytes_binary = get binary_of "ebytes";
    a_ignored = has "ignored"; a_include_ignored = has "include-ignored" }

let parse_calls toks : builder_call list =
  List.map (fun (k, v) -> match k with
      | "color" -> BColor (color_of v)
      | "bytes" -> BBytesFormat (binary_of v)
      | "run_ignored" -> BRunIgnored
      | "run_only_ignored" -> BRunOnlyIgnored
      | _ -> failwith ("bad builder call " ^ k)) (kvs toks)

let show_config (c : config) =
  Printf.sprintf "action=%s timer=%s sort=%s reverse=%d color=%s bytes=%s ignored=%s"
    (match c.cfg_action with ABench -> "bench" | ATest -> "test" | AList -> "list" | AListTerse -> "list-terse")
    (match c.cfg_timer with TOs -> "os" | TTsc -> "tsc") (show_sorting c.cfg_sort) (if c.cfg_reverse then 1 else 0)
    (match c.cfg_color with CAuto -> "auto" | CAlways -> "always" | CNever -> "never")
    (if c.cfg_bytes_binary then "binary" else "decimal")
    (match c.cfg_ignored with RunNo -> "no" | RunYes -> "yes" | RunOnly -> "only")

(* the ops of section F split by origin: builder skips before parsing (p), command line (c), builder skips after (q) *)
let rcfg_filters secs =
  let ops = List.map parse_op (nonempty (section secs "F")) in
  let origins = (match nonempty (section secs "O") with [o] when o <> "-" -> o | _ -> "") in
  if String.length origins <> List.length ops then failwith "origins";
  let tagged = List.mapi (fun i op -> (origins.[i], op)) ops in
  let of_origin o = List.filter_map (fun (o', op) -> if o' = o then Some op else None) tagged in
  let cli_ops_ = of_origin 'c' in
  let is_exact = List.exists (function (FExact _, _) -> true | _ -> false) cli_ops_ in
  let text = function (FExact t, _) -> t | (FRegex t, _) -> t in
  (ops, List.map fst (of_origin 'p'), is_exact,
   List.map text (List.filter snd cli_ops_), List.map text (List.filter (fun o -> not (snd o)) cli_ops_),
   List.map fst (of_origin 'q'))

let rcfg_gen use_spec line =
  let secs = sections line in
  let a = parse_cli (nonempty (section secs "A")) in
  let before = parse_calls (nonempty (section secs "P")) and after = parse_calls (nonempty (section secs "Q")) in
  match (if use_spec then config_spec else runner_config_resolve) before a after with
  | None -> "rejected"
  | Some c ->
    let (ops, sb, ex, pos, sk, sa) = rcfg_filters secs in
    let paths = List.map tail1 (nonempty (section secs "X")) in
    let m = make_oracle ops paths (nonempty (section secs "T")) in
    let bits = List.map (fun p ->
        if use_spec then runner_filter_spec m sb ex pos sk sa (str p)
        else res_bool (runner_filter_is_match m sb ex pos sk sa (str p))) paths in
    show_config c ^ " #M " ^ bits_s bits

let rcfg_check line =
  let (c, i) = split_sb line in
  let cut s = (match String.index_opt s '#' with
      | Some _ -> (let re = " #X" in
                   let rec find k = if k + 3 > String.length s then String.length s else if String.sub s k 3 = re then k else find (k + 1) in
                   String.sub s 0 (find 0))
      | None -> s) in
  let isecs = sections i in
  let minput = c ^ " #X " ^ String.concat " " (section isecs "X") ^ " #T " ^ String.concat " " (section isecs "T") in
  let want = rcfg_gen true minput in
  verdict (want = cut i) ("expected:" ^ String.concat "," (String.split_on_char ' ' want))

(* ---- tb: tree building with a controlled registration order + the options every benchmark resolves to.
   "t #E b/<module path>/<raw>/<display>/<options|-> .. g/.. [#R runner]" -> "D dump.. #O display:options .." ---- *)
let split_on_sep s =   (* "a::b::c" -> ["a";"b";"c"]; "" -> [""] (str::split) *)
  let n = String.length s in
  let rec go i start acc =
    if i + 1 < n && s.[i] = ':' && s.[i + 1] = ':' then go (i + 2) (i + 2) (String.sub s start (i - start) :: acc)
    else if i >= n then List.rev (String.sub s start (n - start) :: acc)
    else go (i + 1) start acc in
  go 0 0 []

let tb_parse secs =
  let ents = List.map (fun tok -> match String.split_on_char '/' tok with
      | [k; m; raw; disp; o] -> (k, split_on_sep m, raw, disp, parse_level o)
      | _ -> failwith ("bad entry " ^ tok)) (nonempty (section secs "E")) in
  let benches = List.filter (fun (k, _, _, _, _) -> k = "b") ents and groups = List.filter (fun (k, _, _, _, _) -> k = "g") ents in
  let runner = (match nonempty (section secs "R") with [s] -> parse_fields s | _ -> o_default) in
  (benches, groups, runner)

let strip_raw s = if String.length s >= 2 && String.sub s 0 2 = "r#" then String.sub s 2 (String.length s - 2) else s
let show_options_commas o = String.concat "," (String.split_on_char ' ' (show_options o))

let tb_gen line =
  let secs = sections line in
  let (benches, groups, runner) = tb_parse secs in
  let nth l i = List.nth l (int_of_nat i) in
  (* a benchmark's path in the tree: its module path (the leaf is added below it) *)
  let bench_paths = List.map (fun (_, m, _, _, _) -> List.map str m) benches in
  let group_addrs = List.map (fun (_, m, raw, _, _) -> (List.map str m, str raw)) groups in
  let tree = build_tree bench_paths group_addrs in
  let rec dump depth ts = List.concat_map (function
      | BLeaf b -> let (_, _, _, disp, _) = nth benches b in [Printf.sprintf "%d/L/%s" depth disp]
      | BParent (raw, g, ch) ->
        (match g with
         | Some g -> let (_, _, _, disp, _) = nth groups g in Printf.sprintf "%d/G/%s" depth disp
         | None -> Printf.sprintf "%d/P/%s" depth (strip_raw (unstr raw))) :: dump (depth + 1) ch) ts in
  let gopt g = let (_, _, _, _, o) = nth groups g in o and bopt b = let (_, _, _, _, o) = nth benches b in o in
  let resolved = options_on_tree runner gopt bopt tree in
  "D " ^ String.concat " " (dump 0 tree) ^ " #O "
  ^ String.concat " " (List.map (fun (b, o) -> let (_, _, _, disp, _) = nth benches b in disp ^ ":" ^ show_options_commas o) resolved)

let tb_check line =
  let (c, i) = split_sb line in
  let isecs = sections i in
  match nonempty (section isecs "") with
  | "D" :: _ ->
    let (benches, groups, runner) = tb_parse (sections c) in
    let group_addrs = List.map (fun (_, m, raw, _, _) -> (List.map str m, str raw)) groups in
    let gopt g = let (_, _, _, _, o) = List.nth groups (int_of_nat g) in o in
    (* every benchmark once, with the options of the nearest enclosing groups (last registered group per module) *)
    let want = List.sort compare (List.map (fun (_, m, _, disp, o) ->
        disp ^ ":" ^ show_options_commas (spec_options_of_bench runner group_addrs gopt o (List.map str m))) benches) in
    let got = List.sort compare (nonempty (section isecs "O")) in
    if want = got then "true"
    else (match List.filter (fun w -> not (List.mem w got)) want with
        | w :: _ -> verdict false ("expected:" ^ w ^ "-observed:" ^ String.concat "|" (List.filter (fun g -> String.sub g 0 (String.index g ':') = String.sub w 0 (String.index w ':')) got))
        | [] -> verdict false "a-benchmark-appears-more-than-once")
  | _ -> verdict false ("outcome:" ^ i)

let dispatch mode line =
  match mode with
  | "ismatch" -> ismatch line
  | "ismatch.sb" -> ismatch_check line
  | "retain" -> retain_m line
  | "retain.sb" -> retain_check line
  | "e2e" -> e2e_m line
  | "e2e.sb" -> e2e_check line
  | "ovw" -> ovw line
  | "ovw.sb" -> ovw_check line
  | "into" -> into line
  | "into.sb" -> into_check line
  | "opt" -> let e = opt_gen false line in "O " ^ e ^ " #L " ^ String.concat " " (listed_of e)
  | "opt.sb" -> opt_check line
  | "psec" -> psec line
  | "psec.sb" -> psec_check line
  | "ropt" -> ropt_gen false line
  | "ropt.sb" -> ropt_check line
  | "rcfg" -> rcfg_gen false line
  | "rcfg.sb" -> rcfg_check line
  | "tb" -> tb_gen line
  | "tb.sb" -> tb_check line
  | "tim" -> tim_gen false line
  | "tim.sb" -> tim_check line
  | _ -> failwith ("unknown mode " ^ mode)

let () = main dispatch
